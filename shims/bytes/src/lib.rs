//! Verification shim for the `bytes` crate: same public names and observable behaviour for the
//! subset of the API that `enr` and `alloy-rlp` use, but backed by a plain `Vec<u8>` (no vtables,
//! no atomics, no pointer tagging), so that a bit-precise model checker can reason about it.
use core::borrow::Borrow;
use core::cmp::Ordering;
use core::hash::{Hash, Hasher};
use core::ops::{Deref, DerefMut};

pub mod buf {
    pub use super::{Buf, BufMut};
}

/// Read access to a sequence of bytes (subset).
pub trait Buf {
    fn remaining(&self) -> usize;
    fn chunk(&self) -> &[u8];
    fn advance(&mut self, cnt: usize);
    fn has_remaining(&self) -> bool {
        self.remaining() > 0
    }
    fn get_u8(&mut self) -> u8 {
        let b = self.chunk()[0];
        self.advance(1);
        b
    }
}

impl Buf for &[u8] {
    #[inline]
    fn remaining(&self) -> usize {
        self.len()
    }
    #[inline]
    fn chunk(&self) -> &[u8] {
        self
    }
    #[inline]
    fn advance(&mut self, cnt: usize) {
        // same panic behaviour as the real crate
        assert!(cnt <= self.len(), "cannot advance past `remaining`");
        *self = &self[cnt..];
    }
}

/// Write access to a growable byte sink (subset). Object safe, like the original.
pub unsafe trait BufMut {
    fn remaining_mut(&self) -> usize;
    fn put_slice(&mut self, src: &[u8]);
    fn put_u8(&mut self, n: u8) {
        self.put_slice(&[n]);
    }
}

unsafe impl<T: BufMut + ?Sized> BufMut for &mut T {
    fn remaining_mut(&self) -> usize {
        (**self).remaining_mut()
    }
    fn put_slice(&mut self, src: &[u8]) {
        (**self).put_slice(src)
    }
    fn put_u8(&mut self, n: u8) {
        (**self).put_u8(n)
    }
}

/// `Vec<u8>` used as a sink: appends within the existing capacity never touch the growth
/// machinery of `RawVec` (probe variant: growth is a reported bound failure).
#[inline]
fn append_vec(v: &mut Vec<u8>, src: &[u8]) {
    #[cfg(not(any(kani, verif_fixed)))]
    {
        v.extend_from_slice(src);
    }
    #[cfg(any(kani, verif_fixed))]
    {
        // a sink created with `Vec::new()` gets one fixed buffer on first use (capacity is not
        // observable); after that no sink ever grows: needing to is a reported bound failure
        if v.capacity() == 0 {
            *v = Vec::with_capacity(CAPB);
        }
        let len = v.len();
        let n = src.len();
        assert!(len + n <= v.capacity() && n <= CAPB, "bytes shim: Vec sink would have to grow");
        unsafe {
            core::ptr::copy_nonoverlapping(src.as_ptr(), v.as_mut_ptr().add(len), n);
            v.set_len(len + n);
        }
    }
}
unsafe impl BufMut for Vec<u8> {
    fn remaining_mut(&self) -> usize {
        isize::MAX as usize - self.len()
    }
    fn put_slice(&mut self, src: &[u8]) {
        append_vec(self, src);
    }
    fn put_u8(&mut self, n: u8) {
        append_vec(self, &[n]);
    }
}

/// capacity of every `BytesMut` in the verification build; appends never reallocate
#[cfg(kani)]
pub const CAPB: usize = 40;
#[cfg(not(kani))]
pub const CAPB: usize = 4096;


/// byte-wise bounded copy: no `memcpy` with a symbolic length (which CBMC models with
/// variable-length arrays and its array theory), just CAPB guarded byte stores.
#[inline]
unsafe fn copy_bounded(src: *const u8, dst: *mut u8, n: usize) {
    macro_rules! step { ($($i:expr),*) => { $( if $i < n { *dst.add($i) = *src.add($i); } )* } }
    step!(0, 1, 2, 3, 4, 5, 6, 7, 8, 9, 10, 11, 12, 13, 14, 15, 16, 17, 18, 19, 20, 21, 22, 23, 24, 25, 26, 27, 28, 29, 30, 31, 32, 33, 34, 35, 36, 37, 38, 39, 40, 41, 42, 43, 44, 45, 46, 47, 48, 49, 50, 51, 52, 53, 54, 55, 56, 57, 58, 59, 60, 61, 62, 63);
}

#[inline]
fn append_fixed(v: &mut Vec<u8>, src: &[u8]) {
    let len = v.len();
    let n = src.len();
    assert!(v.capacity() >= CAPB && len + n <= CAPB, "bytes shim: fixed BytesMut capacity exceeded");
    unsafe {
        core::ptr::copy_nonoverlapping(src.as_ptr(), v.as_mut_ptr().add(len), n);
        v.set_len(len + n);
    }
}

unsafe impl BufMut for BytesMut {
    fn remaining_mut(&self) -> usize {
        CAPB - self.data.len()
    }
    fn put_slice(&mut self, src: &[u8]) {
        append_fixed(&mut self.data, src);
    }
    fn put_u8(&mut self, n: u8) {
        append_fixed(&mut self.data, &[n]);
    }
}

/// Immutable byte string.
#[derive(Default)]
pub struct Bytes {
    data: Vec<u8>,
}

impl Clone for Bytes {
    fn clone(&self) -> Self {
        #[cfg(kani)]
        {
            // element-wise copy into a fixed-capacity allocation (see verif_map::ModelClone)
            let n = self.data.len();
            assert!(n <= CAPB, "bytes shim: clone of more than CAPB bytes");
            let mut v: Vec<u8> = Vec::with_capacity(CAPB);
            let src = self.data.as_ptr();
            let dst = v.as_mut_ptr();
            macro_rules! step { ($($i:expr),*) => { $( if $i < n { unsafe { *dst.add($i) = *src.add($i); } } )* } }
            step!(0, 1, 2, 3, 4, 5, 6, 7, 8, 9, 10, 11, 12, 13, 14, 15, 16, 17, 18, 19, 20, 21, 22, 23, 24, 25,
                  26, 27, 28, 29, 30, 31, 32, 33, 34, 35, 36, 37, 38, 39);
            unsafe { v.set_len(n) };
            Self { data: v }
        }
        #[cfg(not(kani))]
        {
            Self { data: self.data.clone() }
        }
    }
}

impl Bytes {
    pub const fn new() -> Self {
        Self { data: Vec::new() }
    }
    pub fn from_static(b: &'static [u8]) -> Self {
        Self { data: b.to_vec() }
    }
    pub fn copy_from_slice(b: &[u8]) -> Self {
        Self { data: b.to_vec() }
    }
    pub fn len(&self) -> usize {
        self.data.len()
    }
    pub fn is_empty(&self) -> bool {
        self.data.is_empty()
    }
    pub fn slice(&self, range: core::ops::Range<usize>) -> Self {
        Self { data: self.data[range].to_vec() }
    }
}

impl Deref for Bytes {
    type Target = [u8];
    fn deref(&self) -> &[u8] {
        &self.data
    }
}
impl AsRef<[u8]> for Bytes {
    fn as_ref(&self) -> &[u8] {
        &self.data
    }
}
impl Borrow<[u8]> for Bytes {
    fn borrow(&self) -> &[u8] {
        &self.data
    }
}
impl From<Vec<u8>> for Bytes {
    fn from(data: Vec<u8>) -> Self {
        Self { data }
    }
}
impl From<&'static [u8]> for Bytes {
    fn from(b: &'static [u8]) -> Self {
        Self { data: b.to_vec() }
    }
}
impl From<&'static str> for Bytes {
    fn from(b: &'static str) -> Self {
        Self { data: b.as_bytes().to_vec() }
    }
}
impl From<Box<[u8]>> for Bytes {
    fn from(b: Box<[u8]>) -> Self {
        Self { data: b.into_vec() }
    }
}
impl From<String> for Bytes {
    fn from(s: String) -> Self {
        Self { data: s.into_bytes() }
    }
}
impl From<BytesMut> for Bytes {
    fn from(b: BytesMut) -> Self {
        Self { data: b.data }
    }
}
impl From<Bytes> for Vec<u8> {
    fn from(b: Bytes) -> Self {
        b.data
    }
}
impl PartialEq for Bytes {
    fn eq(&self, o: &Self) -> bool {
        self.data == o.data
    }
}
impl Eq for Bytes {}
impl PartialOrd for Bytes {
    fn partial_cmp(&self, o: &Self) -> Option<Ordering> {
        Some(self.cmp(o))
    }
}
impl Ord for Bytes {
    fn cmp(&self, o: &Self) -> Ordering {
        self.data.cmp(&o.data)
    }
}
impl Hash for Bytes {
    fn hash<H: Hasher>(&self, state: &mut H) {
        self.data.as_slice().hash(state)
    }
}
impl PartialEq<[u8]> for Bytes {
    fn eq(&self, o: &[u8]) -> bool {
        self.data.as_slice() == o
    }
}
impl PartialEq<Bytes> for [u8] {
    fn eq(&self, o: &Bytes) -> bool {
        self == o.data.as_slice()
    }
}
impl PartialEq<Vec<u8>> for Bytes {
    fn eq(&self, o: &Vec<u8>) -> bool {
        &self.data == o
    }
}
impl PartialEq<Bytes> for Vec<u8> {
    fn eq(&self, o: &Bytes) -> bool {
        self == &o.data
    }
}
impl<'a, T: ?Sized> PartialEq<&'a T> for Bytes
where
    Bytes: PartialEq<T>,
{
    fn eq(&self, o: &&'a T) -> bool {
        *self == **o
    }
}
impl PartialEq<BytesMut> for Bytes {
    fn eq(&self, o: &BytesMut) -> bool {
        self.data == o.data
    }
}
impl PartialEq<Bytes> for BytesMut {
    fn eq(&self, o: &Bytes) -> bool {
        self.data == o.data
    }
}
impl core::fmt::Debug for Bytes {
    fn fmt(&self, f: &mut core::fmt::Formatter<'_>) -> core::fmt::Result {
        core::fmt::Debug::fmt(&self.data, f)
    }
}
impl Buf for Bytes {
    fn remaining(&self) -> usize {
        self.data.len()
    }
    fn chunk(&self) -> &[u8] {
        &self.data
    }
    fn advance(&mut self, cnt: usize) {
        assert!(cnt <= self.data.len(), "cannot advance past `remaining`");
        self.data.drain(..cnt);
    }
}
impl IntoIterator for Bytes {
    type Item = u8;
    type IntoIter = std::vec::IntoIter<u8>;
    fn into_iter(self) -> Self::IntoIter {
        self.data.into_iter()
    }
}
impl<'a> IntoIterator for &'a Bytes {
    type Item = &'a u8;
    type IntoIter = core::slice::Iter<'a, u8>;
    fn into_iter(self) -> Self::IntoIter {
        self.data.iter()
    }
}
impl FromIterator<u8> for Bytes {
    fn from_iter<I: IntoIterator<Item = u8>>(i: I) -> Self {
        Self { data: i.into_iter().collect() }
    }
}

/// Growable byte buffer.
#[derive(Clone, Default)]
pub struct BytesMut {
    data: Vec<u8>,
}

impl BytesMut {
    pub fn new() -> Self {
        Self { data: Vec::with_capacity(CAPB) }
    }
    pub fn with_capacity(_cap: usize) -> Self {
        Self { data: Vec::with_capacity(CAPB) }
    }
    pub fn len(&self) -> usize {
        self.data.len()
    }
    pub fn is_empty(&self) -> bool {
        self.data.is_empty()
    }
    pub fn capacity(&self) -> usize {
        self.data.capacity()
    }
    pub fn extend_from_slice(&mut self, s: &[u8]) {
        append_fixed(&mut self.data, s);
    }
    pub fn freeze(self) -> Bytes {
        Bytes { data: self.data }
    }
    pub fn clear(&mut self) {
        self.data.clear();
    }
    pub fn truncate(&mut self, n: usize) {
        self.data.truncate(n);
    }
    pub fn reserve(&mut self, n: usize) {
        self.data.reserve(n);
    }
}
impl Deref for BytesMut {
    type Target = [u8];
    fn deref(&self) -> &[u8] {
        &self.data
    }
}
impl DerefMut for BytesMut {
    fn deref_mut(&mut self) -> &mut [u8] {
        &mut self.data
    }
}
impl AsRef<[u8]> for BytesMut {
    fn as_ref(&self) -> &[u8] {
        &self.data
    }
}
impl AsMut<[u8]> for BytesMut {
    fn as_mut(&mut self) -> &mut [u8] {
        &mut self.data
    }
}
impl Borrow<[u8]> for BytesMut {
    fn borrow(&self) -> &[u8] {
        &self.data
    }
}
impl<'a> From<&'a [u8]> for BytesMut {
    fn from(b: &'a [u8]) -> Self {
        let mut out = Self::new();
        append_fixed(&mut out.data, b);
        out
    }
}
impl<'a> From<&'a str> for BytesMut {
    fn from(b: &'a str) -> Self {
        Self { data: b.as_bytes().to_vec() }
    }
}
impl From<BytesMut> for Vec<u8> {
    fn from(b: BytesMut) -> Self {
        b.data
    }
}
impl PartialEq for BytesMut {
    fn eq(&self, o: &Self) -> bool {
        self.data == o.data
    }
}
impl Eq for BytesMut {}
impl PartialOrd for BytesMut {
    fn partial_cmp(&self, o: &Self) -> Option<Ordering> {
        Some(self.data.cmp(&o.data))
    }
}
impl Ord for BytesMut {
    fn cmp(&self, o: &Self) -> Ordering {
        self.data.cmp(&o.data)
    }
}
impl Hash for BytesMut {
    fn hash<H: Hasher>(&self, state: &mut H) {
        self.data.as_slice().hash(state)
    }
}
impl PartialEq<[u8]> for BytesMut {
    fn eq(&self, o: &[u8]) -> bool {
        self.data.as_slice() == o
    }
}
impl PartialEq<BytesMut> for [u8] {
    fn eq(&self, o: &BytesMut) -> bool {
        self == o.data.as_slice()
    }
}
impl PartialEq<Vec<u8>> for BytesMut {
    fn eq(&self, o: &Vec<u8>) -> bool {
        &self.data == o
    }
}
impl PartialEq<BytesMut> for Vec<u8> {
    fn eq(&self, o: &BytesMut) -> bool {
        self == &o.data
    }
}
impl<'a, T: ?Sized> PartialEq<&'a T> for BytesMut
where
    BytesMut: PartialEq<T>,
{
    fn eq(&self, o: &&'a T) -> bool {
        *self == **o
    }
}
impl core::fmt::Debug for BytesMut {
    fn fmt(&self, f: &mut core::fmt::Formatter<'_>) -> core::fmt::Result {
        core::fmt::Debug::fmt(&self.data, f)
    }
}
impl Extend<u8> for BytesMut {
    fn extend<I: IntoIterator<Item = u8>>(&mut self, i: I) {
        self.data.extend(i)
    }
}
impl<'a> Extend<&'a u8> for BytesMut {
    fn extend<I: IntoIterator<Item = &'a u8>>(&mut self, i: I) {
        self.data.extend(i)
    }
}
impl Buf for BytesMut {
    fn remaining(&self) -> usize {
        self.data.len()
    }
    fn chunk(&self) -> &[u8] {
        &self.data
    }
    fn advance(&mut self, cnt: usize) {
        assert!(cnt <= self.data.len(), "cannot advance past `remaining`");
        self.data.drain(..cnt);
    }
}
