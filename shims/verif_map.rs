//! Verification model of `std::collections::BTreeMap` (the subset of its API that enr uses):
//! a fixed number of slots kept sorted by key. Same observable behaviour (ordering, replacement,
//! return values, iteration order); no nodes, no splitting, no heap and no loops in the map itself:
//! the slots are individual struct fields so that a bit-precise model checker keeps them apart.
use core::borrow::Borrow;
use core::cmp::Ordering;

macro_rules! def_map {
    ($cap:expr; $($i:expr),*) => {
        pub const CAP: usize = $cap;

        pub struct BTreeMap<K, V> {
            len: usize,
            slots: core::mem::ManuallyDrop<[Option<(K, V)>; CAP]>,
        }

        /// Runs `$body` once per slot index, in increasing order, as straight-line code.
        macro_rules! each_slot {
            ($j:ident, $body:block) => {{
                $( { let $j: usize = $i; $body } )*
            }};
        }
    };
}

#[cfg(kani)]
def_map!(6; 0, 1, 2, 3, 4, 5);
#[cfg(not(kani))]
def_map!(16; 0, 1, 2, 3, 4, 5, 6, 7, 8, 9, 10, 11, 12, 13, 14, 15);

impl<K, V> BTreeMap<K, V> {
    pub const fn new() -> Self {
        Self { len: 0, slots: core::mem::ManuallyDrop::new([const { None }; CAP]) }
    }
    fn slot(&self, i: usize) -> &Option<(K, V)> {
        &self.slots[i]
    }
    fn slot_mut(&mut self, i: usize) -> &mut Option<(K, V)> {
        &mut self.slots[i]
    }
}

impl<K, V> BTreeMap<K, V> {
    /// verification only: appends an entry WITHOUT searching. The caller guarantees that `key` is
    /// greater than every key already present (harnesses assert it); gives a pre-state whose
    /// layout is fixed, so that no pointer into the map depends on symbolic key bytes.
    pub fn verif_push(&mut self, key: K, value: V) {
        assert!(self.len < CAP, "verification map capacity exceeded");
        let i = self.len;
        let old = core::mem::replace(self.slot_mut(i), Some((key, value)));
        core::mem::forget(old); // always None
        self.len += 1;
    }
}

impl<K, V> Drop for BTreeMap<K, V> {
    fn drop(&mut self) {
        each_slot!(i, {
            if i < self.len {
                drop(self.slots[i].take());
            }
        });
    }
}

impl<K, V> BTreeMap<K, V> {
    pub fn len(&self) -> usize {
        self.len
    }
    pub fn is_empty(&self) -> bool {
        self.len == 0
    }
    pub fn iter(&self) -> Iter<'_, K, V> {
        Iter { map: self, idx: 0 }
    }
    pub fn values(&self) -> Values<'_, K, V> {
        Values { inner: self.iter() }
    }
    pub fn keys(&self) -> Keys<'_, K, V> {
        Keys { inner: self.iter() }
    }
    /// moves the content of slot `from` into the (empty) slot `to`
    fn shift(&mut self, from: usize, to: usize) {
        let x = self.slot_mut(from).take();
        let old = core::mem::replace(self.slot_mut(to), x);
        core::mem::forget(old); // always None
    }
}

impl<K, V> Default for BTreeMap<K, V> {
    fn default() -> Self {
        Self::new()
    }
}

impl<K: Ord, V> BTreeMap<K, V> {
    /// Ok(i): key is at slot i; Err(i): key is absent and belongs at slot i.
    fn find<Q: ?Sized + Ord>(&self, key: &Q) -> Result<usize, usize>
    where
        K: Borrow<Q>,
    {
        each_slot!(i, {
            if i >= self.len {
                return Err(i);
            }
            if let Some((k, _)) = self.slot(i) {
                match k.borrow().cmp(key) {
                    Ordering::Less => {}
                    Ordering::Equal => return Ok(i),
                    Ordering::Greater => return Err(i),
                }
            }
        });
        Err(CAP)
    }
    pub fn get<Q: ?Sized + Ord>(&self, key: &Q) -> Option<&V>
    where
        K: Borrow<Q>,
    {
        match self.find(key) {
            Ok(i) => self.slot(i).as_ref().map(|kv| &kv.1),
            Err(_) => None,
        }
    }
    pub fn contains_key<Q: ?Sized + Ord>(&self, key: &Q) -> bool
    where
        K: Borrow<Q>,
    {
        self.find(key).is_ok()
    }
    pub fn insert(&mut self, key: K, value: V) -> Option<V> {
        match self.find(&key) {
            Ok(i) => match self.slot_mut(i) {
                // like std: the old key is kept, the value replaced
                Some(kv) => Some(core::mem::replace(&mut kv.1, value)),
                None => None,
            },
            Err(pos) => {
                assert!(self.len < CAP, "verification map capacity exceeded");
                // slot[len] is empty: open a gap at pos
                each_slot!(r, {
                    let j = CAP - 1 - r; // CAP-1 down to 0
                    if j > 0 && j <= self.len && j > pos {
                        self.shift(j - 1, j);
                    }
                });
                let old = core::mem::replace(self.slot_mut(pos), Some((key, value)));
                core::mem::forget(old); // always None
                self.len += 1;
                None
            }
        }
    }
    pub fn remove<Q: ?Sized + Ord>(&mut self, key: &Q) -> Option<V>
    where
        K: Borrow<Q>,
    {
        match self.find(key) {
            Ok(i) => {
                let old = self.slot_mut(i).take();
                each_slot!(j, {
                    if j + 1 < CAP && j >= i && j + 1 < self.len {
                        self.shift(j + 1, j);
                    }
                });
                self.len -= 1;
                old.map(|kv| kv.1)
            }
            Err(_) => None,
        }
    }
}

/// How the model map copies keys and values. `Vec<u8>::clone` goes through std's `to_vec_in`
/// (allocation of symbolic size + memcpy), after which the symbolic executor no longer sees that a
/// cloned key still holds a constant name, every later key comparison becomes symbolic and with it
/// the layout of the map. Under Kani byte vectors are therefore copied element by element into a
/// fixed-capacity allocation; natively this is a plain clone.
pub trait ModelClone {
    fn mclone(&self) -> Self;
}
impl ModelClone for Vec<u8> {
    fn mclone(&self) -> Self {
        #[cfg(kani)]
        {
            let n = self.len();
            assert!(n <= 40, "verification map: key longer than 40 bytes");
            let mut v: Vec<u8> = Vec::with_capacity(40);
            let src = self.as_ptr();
            let dst = v.as_mut_ptr();
            macro_rules! step { ($($i:expr),*) => { $( if $i < n { unsafe { *dst.add($i) = *src.add($i); } } )* } }
            step!(0, 1, 2, 3, 4, 5, 6, 7, 8, 9, 10, 11, 12, 13, 14, 15, 16, 17, 18, 19, 20, 21, 22, 23, 24, 25,
                  26, 27, 28, 29, 30, 31, 32, 33, 34, 35, 36, 37, 38, 39);
            unsafe { v.set_len(n) };
            v
        }
        #[cfg(not(kani))]
        {
            self.clone()
        }
    }
}
impl ModelClone for bytes::Bytes {
    fn mclone(&self) -> Self {
        self.clone()
    }
}
impl ModelClone for u8 {
    fn mclone(&self) -> Self {
        *self
    }
}

impl<K: ModelClone, V: ModelClone> Clone for BTreeMap<K, V> {
    fn clone(&self) -> Self {
        let mut out = Self::new();
        each_slot!(i, {
            if i < self.len {
                let c = match self.slot(i) {
                    Some((k, v)) => Some((k.mclone(), v.mclone())),
                    None => None,
                };
                let old = core::mem::replace(out.slot_mut(i), c);
                core::mem::forget(old);
            }
        });
        out.len = self.len;
        out
    }
}

impl<K: core::fmt::Debug, V: core::fmt::Debug> core::fmt::Debug for BTreeMap<K, V> {
    fn fmt(&self, f: &mut core::fmt::Formatter<'_>) -> core::fmt::Result {
        f.debug_map().entries(self.iter()).finish()
    }
}

pub struct Iter<'a, K, V> {
    map: &'a BTreeMap<K, V>,
    idx: usize,
}
impl<'a, K, V> Iterator for Iter<'a, K, V> {
    type Item = (&'a K, &'a V);
    fn next(&mut self) -> Option<Self::Item> {
        if self.idx >= self.map.len || self.idx >= CAP {
            return None;
        }
        let r = self.map.slot(self.idx).as_ref().map(|kv| (&kv.0, &kv.1));
        self.idx += 1;
        r
    }
}
pub struct Values<'a, K, V> {
    inner: Iter<'a, K, V>,
}
impl<'a, K, V> Iterator for Values<'a, K, V> {
    type Item = &'a V;
    fn next(&mut self) -> Option<&'a V> {
        self.inner.next().map(|kv| kv.1)
    }
}
pub struct Keys<'a, K, V> {
    inner: Iter<'a, K, V>,
}
impl<'a, K, V> Iterator for Keys<'a, K, V> {
    type Item = &'a K;
    fn next(&mut self) -> Option<&'a K> {
        self.inner.next().map(|kv| kv.0)
    }
}
impl<'a, K, V> IntoIterator for &'a BTreeMap<K, V> {
    type Item = (&'a K, &'a V);
    type IntoIter = Iter<'a, K, V>;
    fn into_iter(self) -> Iter<'a, K, V> {
        self.iter()
    }
}
pub struct IntoIter<K, V> {
    map: BTreeMap<K, V>,
    idx: usize,
}
impl<K, V> Iterator for IntoIter<K, V> {
    type Item = (K, V);
    fn next(&mut self) -> Option<(K, V)> {
        if self.idx >= self.map.len || self.idx >= CAP {
            return None;
        }
        let r = self.map.slot_mut(self.idx).take();
        self.idx += 1;
        r
    }
}
impl<K, V> IntoIterator for BTreeMap<K, V> {
    type Item = (K, V);
    type IntoIter = IntoIter<K, V>;
    fn into_iter(self) -> IntoIter<K, V> {
        IntoIter { map: self, idx: 0 }
    }
}
