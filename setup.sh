#!/bin/sh
# Offline setup after a fresh restore: nothing is fetched. Validates the verification substrate
# (the repo's own tests must pass on the substituted BTreeMap/bytes build) and warms cargo's
# compilation of the harness dependencies.
set -e
cd "$(dirname "$0")"
export CARGO_NET_OFFLINE=true
python3 tools/substrate_selftest.py
echo "setup ok"
