#!/usr/bin/env python3
"""Translator validation (Serval-style): the repository's own test-suite is run natively against the
scratch copy in which std's BTreeMap is replaced by shims/verif_map.rs and the bytes crate by
shims/bytes (both with the fixed-capacity code path that Kani sees and with the growing one).
Exit 0 iff all pass."""
import os
import shutil
import subprocess
import sys
import tempfile

HERE = os.path.dirname(os.path.abspath(__file__))
VERIF = os.path.dirname(HERE)
REPO = os.environ.get('VERIF_REPO', '/repo')


def main():
    scratch = tempfile.mkdtemp(prefix='enr-verif-self-')
    env = dict(os.environ, CARGO_NET_OFFLINE='true')
    try:
        rdir = os.path.join(scratch, 'repo')
        subprocess.check_call([sys.executable, os.path.join(HERE, 'rewrite.py'), REPO, rdir, '--map', 'model'])
        shutil.copytree(os.path.join(VERIF, 'shims'), os.path.join(scratch, 'shims'))
        with open(os.path.join(rdir, 'Cargo.toml'), 'a') as f:
            f.write('\n[patch.crates-io]\nbytes = { path = "../shims/bytes" }\n')
        rc = 0
        for flags in ('--cfg verif_fixed', ''):
            e = dict(env, RUSTFLAGS=flags, CARGO_TARGET_DIR=os.path.join(scratch, 'target'))
            p = subprocess.run(['cargo', 'test', '--offline', '--no-fail-fast'], cwd=rdir, env=e,
                               stdout=subprocess.PIPE, stderr=subprocess.STDOUT, text=True)
            res = [l for l in p.stdout.splitlines() if l.startswith('test result')]
            print('substrate selftest [%s]: rc=%d %s' % (flags or 'growing', p.returncode, ' | '.join(res)))
            if p.returncode != 0:
                sys.stdout.write(p.stdout[-4000:])
                rc = 1
        return rc
    finally:
        shutil.rmtree(scratch, ignore_errors=True)


if __name__ == '__main__':
    sys.exit(main())
