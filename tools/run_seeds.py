#!/usr/bin/env python3
"""Runs the checks against the seeded changes under /verif/seeded (self-test of the machinery).

Each seed is applied to a scratch git worktree of /repo (never to /repo itself), the check of the
property it breaks is run with VERIF_REPO pointing at the worktree (restricted to the harnesses
named in SEEDS below, or the whole quick tier), and the outcome is recorded in
/verif/seeded/RESULTS.json: exit code, VIOLATION / NOTE lines.  exit 1 = detected and replayed
natively; exit 2 = the check became inconclusive (not counted as detection); exit 0 = missed.

usage: run_seeds.py [seed-id ...]      (default: all)
"""
import json
import os
import subprocess
import sys
import time

VERIF = os.path.dirname(os.path.dirname(os.path.abspath(__file__)))

# seed -> (property to check, tier, harnesses expected to be relevant; empty = whole tier)
SEEDS = {
    'S-C16-1': ('C16', 'quick', ['n_de_probes']),
    'S-C14-1': ('C14', 'quick', ['a14_sock_all', 'a14_sock_v6']),
    'S-C15-1': ('C15', 'quick', ['a15_compare_lengths']),
    'S-C07-1': ('C07', 'quick', ['u_remove_absent']),
    'S-C10-1': ('C10', 'quick', ['u_remove_key']),
    'S-C05-1': ('C05', 'quick', ['u_set_tcp4', 'u_insert_raw']),
    'S-C06-1': ('C06', 'quick', ['u_set_udp_socket4', 'u_set_tcp_socket4']),
    'S-C09-1': ('C09', 'quick', ['u_set_udp_socket4', 'u_set_tcp_socket4']),
    'S-C08-1': ('C08', 'thorough', ['u_set_udp_socket6']),
    'S-C13-1': ('C13', 'quick', ['d_gate_small', 'd_gate_at']),
    'S-C12-1': ('C12', 'quick', ['t_probes_prefix', 't_de_strict']),
    'S-C02-1': ('C02', 'quick', ['dp_no_udp6_2_16', 'dp_no_udp6_leading_zero', 'dp_no_udp6_single_zero_byte', 'dp_no_udp6_list']),
    'S-C04-1': ('C04', 'quick', ['dp_ok_custom_empty_list', 'dp_ok_custom_nested_lists']),
    'S-C01-1': ('C01', 'thorough', ['g_k256_verify']),
    'S-C03-1': ('C03', 'quick', ['a14_client_0', 'a14_client_1']),
    'S-C11-1': ('C11', 'quick', ['g_combined_precedence']),
    'S-C05-2': ('C05', 'quick', ['u_remove_insert_key_rm', 'u_remove_insert_key_ins']),
    'S-C06-2': ('C06', 'quick', ['u_remove_insert']),
    'S-C08-2': ('C08', 'thorough', ['u_remove_insert_same']),
    'S-C14-2': ('C14', 'thorough', ['u_set_ip6']),
    'S-C02-2': ('C02', 'quick', ['dp_no_duplicate_key', 'dp_no_unsorted_keys']),
    'S-C09-2': ('C09', 'quick', ['u_remove_insert']),
    'H-F1': ('C16', 'quick', ['n_parse']),
    'H-F2': ('C06', 'quick', ['u_set_tcp4']),
    'H-F3': ('C05', 'quick', ['u_set_seq']),
    'H-F4': ('C13', 'quick', ['d_gate_small']),
    'H-F5': ('C12', 'quick', ['t_no_trailing_byte']),
    'H-F6': ('C05', 'quick', ['u_remove_insert_key_ins']),
    'H-F7F9': ('C08', 'quick', ['u_insert_raw', 'u_set_public_key']),
    'H-F8': ('C05', 'quick', ['u_build_raw']),
}


def main():
    ids = sys.argv[1:] or sorted(SEEDS)
    resp = os.path.join(VERIF, 'seeded', 'RESULTS.json')
    results = json.load(open(resp)) if os.path.exists(resp) else {}
    for sid in ids:
        prop, tier, only = SEEDS[sid]
        wt = '/tmp/seedrun-' + sid
        subprocess.run(['git', '-C', '/repo', 'worktree', 'remove', '--force', wt], stdout=subprocess.DEVNULL, stderr=subprocess.DEVNULL)
        subprocess.check_call(['git', '-C', '/repo', 'worktree', 'add', '--detach', wt, 'HEAD', '-f'],
                              stdout=subprocess.DEVNULL, stderr=subprocess.DEVNULL)
        try:
            subprocess.check_call(['cp', '/repo/Cargo.lock', wt + '/Cargo.lock'])
            subprocess.check_call(['git', '-C', wt, 'apply', os.path.join(VERIF, 'seeded', sid, 'patch.diff')])
            cmd = [os.path.join(VERIF, 'check'), prop, '--tier', tier, '--no-evidence']
            for h in only:
                cmd += ['--only', h]
            t0 = time.time()
            p = subprocess.run(cmd, cwd=VERIF, env=dict(os.environ, VERIF_REPO=wt), stdout=subprocess.PIPE,
                               stderr=subprocess.STDOUT, text=True)
            lines = [l for l in p.stdout.splitlines() if l.startswith(('VIOLATION', 'NOTE', 'KNOWN', 'RESULT', 'INCONCLUSIVE'))]
            results[sid] = {'property': prop, 'tier': tier, 'harnesses': only, 'exit': p.returncode,
                            'detected': p.returncode == 1, 'wall_s': round(time.time() - t0), 'lines': lines[:12]}
            print('%-10s %-4s exit=%d %s' % (sid, prop, p.returncode, '; '.join(l for l in lines if l.startswith('VIOLATION'))[:160]))
            sys.stdout.flush()
        finally:
            subprocess.run(['git', '-C', '/repo', 'worktree', 'remove', '--force', wt], stdout=subprocess.DEVNULL, stderr=subprocess.DEVNULL)
        json.dump(results, open(resp, 'w'), indent=1, sort_keys=True)


if __name__ == '__main__':
    main()
