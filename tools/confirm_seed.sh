#!/bin/sh
# confirm_seed.sh <dir with patch.diff and seed_demo.rs> : confirms in a fresh scratch worktree of
# /repo HEAD that (1) suite+demo pass without the patch, (2) with the patch the suite still passes
# and the demo fails. Prints CONFIRMED or NOT-CONFIRMED. Removes the worktree.
set -u
SRC="$1"
WT=$(mktemp -d /tmp/seedconfirm-XXXXXX)
rmdir "$WT"
git -C /repo worktree add --detach "$WT" HEAD -f >/dev/null 2>&1 || exit 2
cp /repo/Cargo.lock "$WT"/ 2>/dev/null
cp "$SRC/seed_demo.rs" "$WT/tests/seed_demo.rs"
cd "$WT"
export CARGO_NET_OFFLINE=true CARGO_TARGET_DIR="$WT/target"
r1=$(cargo test --workspace --offline --no-fail-fast 2>&1 | grep -E "^test result" | tr '\n' ' ')
echo "without patch: $r1"
git apply "$SRC/patch.diff" || { echo "NOT-CONFIRMED (patch does not apply)"; cd /; git -C /repo worktree remove --force "$WT"; exit 1; }
r2=$(cargo test --workspace --offline --no-fail-fast 2>&1 | grep -E "^test result" | tr '\n' ' ')
echo "with patch:    $r2"
cd /
git -C /repo worktree remove --force "$WT"
case "$r1" in *FAILED*|*failed*[1-9]*) ;; esac
echo "$r1" | grep -q "FAILED" && { echo "NOT-CONFIRMED (something fails without the patch)"; exit 1; }
n_fail=$(echo "$r2" | grep -o "FAILED" | wc -l)
suite_ok=$(echo "$r2" | grep -c "ok. 38 passed")
if [ "$n_fail" = "1" ] && [ "$suite_ok" = "1" ] && echo "$r2" | grep -q "ok. 4 passed"; then echo CONFIRMED; exit 0; fi
echo "NOT-CONFIRMED"; exit 1
