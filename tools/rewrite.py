#!/usr/bin/env python3
"""Deterministic source-to-source step applied to a scratch COPY of /repo (never to /repo).

  rewrite.py <repo> <dst> [--map model|std] [--max N]

* --map model : every import of std's BTreeMap is redirected to crate::verif_map::BTreeMap
                (fixed-capacity sorted array, shims/verif_map.rs)
  --map std   : crate::verif_map re-exports std's BTreeMap (used for native replays against the
                real container)
* --max N     : the literal L in `const MAX_ENR_SIZE: usize = L;` is replaced by N + (L - 300), so
                a change of the literal is still visible in scaled builds.
* appended to lib.rs in every mode: `pub mod verif_map`, export of `SigningError` and a
  constructor for it (they are unreachable from outside the crate otherwise), and
  `Enr::verif_from_parts` (assemble an arbitrary pre-state).

Exit status 3 = the source has a shape the rewriter does not understand (callers report
"inconclusive", never a violation).
"""
import os
import re
import shutil
import sys

HERE = os.path.dirname(os.path.abspath(__file__))
MAP_MODEL = os.path.join(HERE, '..', 'shims', 'verif_map.rs')

APPEND = '''
// ---- appended by /verif/tools/rewrite.py (verification scratch copy only) ----
#[doc(hidden)]
pub mod verif_map;
pub use keys::SigningError;
/// lets an out-of-crate `EnrKey` report a signing failure
#[doc(hidden)]
pub fn verif_signing_error() -> keys::SigningError {
    keys::SigningError::new("injected")
}
#[doc(hidden)]
pub const VERIF_MAX_ENR_SIZE: usize = MAX_ENR_SIZE;
impl<K: EnrKey> Enr<K> {
    /// verification only: assemble a record from arbitrary parts (no checks)
    #[doc(hidden)]
    pub fn verif_from_parts(
        seq: u64,
        node_id: NodeId,
        content: verif_map::BTreeMap<Key, Bytes>,
        signature: Vec<u8>,
    ) -> Self {
        Self { seq, node_id, content, signature, phantom: PhantomData }
    }
}
'''


def fail(msg):
    sys.stderr.write('rewrite: ' + msg + '\n')
    sys.exit(3)


def main():
    args = sys.argv[1:]
    if len(args) < 2:
        fail('usage: rewrite.py <repo> <dst> [--map model|std] [--max N]')
    src, dst = args[0], args[1]
    mode, mx = 'model', None
    i = 2
    while i < len(args):
        if args[i] == '--map':
            mode = args[i + 1]
            i += 2
        elif args[i] == '--max':
            mx = int(args[i + 1])
            i += 2
        else:
            fail('unknown option ' + args[i])
    if os.path.exists(dst):
        shutil.rmtree(dst)
    shutil.copytree(src, dst, ignore=shutil.ignore_patterns('target', '.git', '.github'))
    n = 0
    for root, _, files in os.walk(os.path.join(dst, 'src')):
        for f in sorted(files):
            if not f.endswith('.rs'):
                continue
            p = os.path.join(root, f)
            s = open(p).read()
            t = re.sub(r'(?m)^[ \t]*collections::BTreeMap,[ \t]*\n', '', s)
            t = re.sub(r'(?m)^use std::collections::BTreeMap;[ \t]*\n', '', t)
            if t != s:
                n += 1
                lines = t.split('\n')
                try:
                    k = next(j for j, l in enumerate(lines) if l.startswith('use '))
                except StopIteration:
                    fail('no top-level use in ' + p)
                lines.insert(k, 'use crate::verif_map::BTreeMap;')
                t = '\n'.join(lines)
            if re.search(r'collections::(\{[^}]*)?BTreeMap', t) or 'btree_map' in t:
                fail('unhandled BTreeMap import form in ' + p)
            open(p, 'w').write(t)
    if n == 0:
        fail('no BTreeMap import found: source layout changed')
    if mode == 'model':
        shutil.copy(MAP_MODEL, os.path.join(dst, 'src', 'verif_map.rs'))
    elif mode == 'std':
        open(os.path.join(dst, 'src', 'verif_map.rs'), 'w').write(
            '//! native replay build: the real container\npub use std::collections::BTreeMap;\n')
    else:
        fail('bad --map')
    p = os.path.join(dst, 'src', 'lib.rs')
    s = open(p).read()
    m = re.search(r'(?m)^(pub(\([a-z]+\))? )?const MAX_ENR_SIZE: usize = (\d+);', s)
    if not m:
        fail('declaration of MAX_ENR_SIZE not found in the expected form')
    lit = int(m.group(3))
    if mx is not None:
        new = mx + (lit - 300)
        if new < 0:
            fail('scaled limit would be negative')
        s = s[:m.start(3)] + str(new) + s[m.end(3):]
    for need in ('mod keys;', 'PhantomData', 'pub struct Enr<K: EnrKey>'):
        if need not in s:
            fail('lib.rs lacks ' + repr(need))
    s += APPEND
    open(p, 'w').write(s)
    print('rewrite: %d files rewritten, map=%s, MAX_ENR_SIZE literal=%d%s'
          % (n, mode, lit, '' if mx is None else ' scaled to %d' % (mx + lit - 300)))


if __name__ == '__main__':
    main()
