#!/usr/bin/env python3
"""Writes /verif/MANIFEST.json from the table below (kept next to the harness registry so the two
cannot drift) and validates it against the schema when jsonschema is importable."""
import json
import os
import sys

HERE = os.path.dirname(os.path.abspath(__file__))
VERIF = os.path.dirname(HERE)
sys.path.insert(0, HERE)
import harnesses as HR  # noqa: E402

TECH = ('bounded model checking of the compiled Rust code: Kani 0.68 -> CBMC 6.11 symbolic execution, '
        'SAT (CaDiCaL) decides every assertion for all inputs within the stated bounds; '
        'counterexamples replayed natively')

CLAIMS = {
    'C16': dict(
        text='Bounded model checking (Kani/CBMC) of the real NodeId code: every slice of length 0..=64 through parse, '
             'all 32-byte values through new/raw/as_ref/From/PartialEq, every ASCII string of length 0..=70 through the '
             'real serde hex deserialiser against a reference acceptor. The solver decides each assertion for all inputs '
             'in those bounds; nothing is claimed for longer inputs. Serialize/Debug/Display (String formatting) are in the '
             'thorough tier.',
        note='Trusted: Kani/CBMC/CaDiCaL, rustc MIR->GOTO translation; serde driven through in-crate value (de)serialisers, '
             'not serde_json; non-ASCII strings outside the bound.',
        ref='DESIGN.md section 4/C16'),
}

NOT_APPLICABLE = {
}

PENDING = 'check under construction in this build phase (see DESIGN.md section 4); not claimed yet'


def main():
    props = [json.loads(l) for l in open(os.path.join(VERIF, 'properties.jsonl'))]
    checks, na = [], []
    for p in props:
        pid = p['id']
        if pid in CLAIMS and HR.select(pid, 'quick'):
            c = CLAIMS[pid]
            checks.append({
                'property_id': pid,
                'quick_cmd': './check %s --tier quick' % pid,
                'thorough_cmd': './check %s --tier thorough' % pid,
                'evidence_file': 'evidence/%s.json' % pid,
                'replay_cmd_template': './check %s --replay {path}' % pid,
                'engine': 'kani-cbmc',
                'level_claimed': {'category': 'model_checking', 'text': c['text'], 'design_ref': c['ref']},
                'level_note': c['note'],
                'technique': TECH,
            })
        else:
            na.append({'property_id': pid, 'reason': NOT_APPLICABLE.get(pid, PENDING)})
    m = {
        'version': 1,
        'setup_cmd': './setup.sh',
        'hooks': {
            'guard': 'none',
            'enable': 'no hooks in /repo: checks copy /repo to a scratch directory and apply tools/rewrite.py '
                      '(BTreeMap -> model, exports for an out-of-crate key scheme, scaled MAX_ENR_SIZE) to the copy',
            'baseline_off_cmd': 'cd /repo && cargo test --workspace --no-fail-fast --offline',
            'source_commits': [],
            'add_only': True,
        },
        'engines': [{
            'name': 'kani-cbmc', 'path': 'check',
            'serves_properties': [c['property_id'] for c in checks],
            'kind_free_text': 'cargo kani (Kani 0.68.0, CBMC 6.11.0, CaDiCaL) over harness crates generated from /repo on every run; runner tools/runner.py',
        }],
        'checks': checks,
        'not_applicable': na,
        'notes': 'Exit 2 of a check means inconclusive (cap hit, bound exceeded, vacuous harness, non-reproducing counterexample); '
                 'it is never reported as success. Results are memoised in .cache/ under a hash of the regenerated sources, '
                 'harness crate, shims and bounds (VERIF_NOCACHE=1 disables).',
    }
    out = os.path.join(VERIF, 'MANIFEST.json')
    json.dump(m, open(out, 'w'), indent=1)
    try:
        import jsonschema
        jsonschema.validate(m, json.load(open('/root/.vp/MANIFEST.schema.json')))
        print('MANIFEST.json valid: %d checks, %d not_applicable' % (len(checks), len(na)))
    except ImportError:
        print('MANIFEST.json written (jsonschema not importable here)')


if __name__ == '__main__':
    main()
