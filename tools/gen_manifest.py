#!/usr/bin/env python3
"""Writes /verif/MANIFEST.json from the table below (kept next to the harness registry so the two
cannot drift) and validates it against the schema when jsonschema is importable."""
import json
import os
import sys

HERE = os.path.dirname(os.path.abspath(__file__))
VERIF = os.path.dirname(HERE)
sys.path.insert(0, HERE)
import harnesses as HR  # noqa: E402

TECH = ('bounded model checking of the compiled Rust code: Kani 0.68 -> CBMC 6.11 symbolic execution, '
        'SAT (CaDiCaL) decides every assertion for all inputs within the stated bounds; '
        'counterexamples replayed natively')

U_NOTE = ('Instantiation: Enr<MKey> (model identity scheme: 1-byte public keys under "k", variable-length signatures 3..=6 bytes, '
          'signer that can fail), generic code of lib.rs/builder.rs as compiled; MAX_ENR_SIZE scaled to 32 by the rewriter '
          '(literal change still visible: scaled = 32 + (literal - 300)); std BTreeMap and bytes replaced by models (validated by '
          'the repo test-suite natively, counterexamples replayed against the real ones); enr::digest stubbed by an injective '
          'function on 1-byte keys; Enr::id stubbed where incidental; <[u8]>::to_vec stubbed by a fixed-capacity copy. Records <= 40 '
          'bytes, <= 4 pairs; the 56-byte and 256-byte RLP header thresholds are outside the bound. Trusted: Kani/CBMC/CaDiCaL.')
U_SET = ('single-step harnesses u_set_tcp4, u_replace_tcp4, u_insert_raw (arbitrary/malformed raw RLP), u_set_seq, u_remove_key, '
         'u_set_udp_socket4, u_remove_insert, u_set_public_key: ONE mutator call with symbolic arguments from an ARBITRARY valid '
         'pre-state (any 64-bit seq, any key, valid signature of any admissible length) with a symbolic signer (same or different '
         'key, may fail, any signature length). One inductive step from a symbolic valid state covers call histories of any length; '
         'the signing fault is one symbolic bit.')

CLAIMS = {
    'C05': dict(
        text='Bounded model checking of the real mutators: ' + U_SET + ' On Ok the post-state is asserted to be the sorted-map model '
             'result, signed by the signer over exactly that content (MAC model), with the signer\'s key and node id, within the '
             'size limit; verify() itself is pinned on by-parts records (a_verify_iff). Builder: u_build.',
        note=U_NOTE + ' "verifies" is decided compositionally (signature = signer MAC over model content, plus verify() <=> MAC match on '
             'arbitrary by-parts records), because reading an encoded post-state exhausts the solver.',
        ref='DESIGN.md section 4/C05'),
    'C06': dict(
        text='Same single-step harnesses: on every Err (size, sequence overflow, ill-typed/malformed value, signer failure - each driven '
             'by a symbolic input) sequence number, node id, signature bytes, every pair and the encoding length are asserted equal '
             'to the snapshot taken before the call.',
        note=U_NOTE, ref='DESIGN.md section 4/C06'),
    'C07': dict(
        text='Same single-step harnesses with a free 64-bit sequence number: Ok => seq+1 (set_seq: exactly the requested value), '
             '2^64-1 => Err(SequenceNumberTooHigh) and no wrap; decode side: d_min (sequence number item of the input is what seq() reports).',
        note=U_NOTE, ref='DESIGN.md section 4/C07'),
    'C08': dict(
        text='Same single-step harnesses against a sorted-map model: pairs after Ok are exactly the model\'s (iteration order, keys, raw values), '
             'return values are the previous values, each error kind is reported only when its cause is present, malformed raw values and '
             'ill-typed reserved values are refused with InvalidRlpData, set_public_key(own key) succeeds.',
        note=U_NOTE, ref='DESIGN.md section 4/C08'),
    'C09': dict(
        text='Same single-step harnesses on a scaled limit (32): every record handed out has size() == length predicted from the parts and <= limit; '
             'Err(ExceedsMaxSize) exactly when the candidate (old signature) or the finished record (new seq, new signature of another length) exceeds it. '
             'The literal 300 is pinned at the decoder by d_gate on the unscaled source.',
        note=U_NOTE, ref='DESIGN.md section 4/C09'),
    'C10': dict(
        text='Same single-step harnesses and decode templates: node id == digest(public key stored) == NodeId::from(public_key()), unchanged under '
             'same-key updates, re-keyed under other-key updates (injective digest stub).',
        note=U_NOTE + ' Keccak-256 itself and k256 point decompression are trusted (pinned by the suite\'s vector tests).',
        ref='DESIGN.md section 4/C10'),
    'C14': dict(
        text='Bounded model checking of every typed accessor against a reference decoder on records assembled from arbitrary parts: all one-item raw values '
             '<= 4 bytes under each port key (all 65536 ports and every malformed form), <= 6 / <= 18 bytes under ip / ip6, id, get_decodable::<u64>; '
             'socket getters and reachability flags equal the combination of the single getters for six concrete presence sets (quick) and all 64 '
             'combinations (thorough); setter side (stores canonical encoding, reads back) in the update-step harnesses.',
        note='Values restricted to exactly one RLP item (what the library can hand out, established by the update-step harnesses); lossy UTF-8 stub exact on ASCII <= 4 bytes; '
             'client_info strings not covered yet. Trusted: Kani/CBMC, map/bytes models.',
        ref='DESIGN.md section 4/C14'),
    'C15': dict(
        text='Bounded model checking on pairs/triples of records assembled from arbitrary parts (any seq, any node id, signatures of 0..=6 bytes): '
             'a == b <=> (seq, node id, signature) equal; equal => identical writes to a recording Hasher; clone equals original field by field; '
             'symmetry, reflexivity, transitivity; compare_content <=> same seq and same pairs regardless of signature.',
        note='"Equal records carry identical pairs" holds for real schemes only under collision resistance of the signature scheme (trusted). Records with <= 2 pairs, values <= 3 bytes.',
        ref='DESIGN.md section 4/C15'),
    'C16': dict(
        text='Bounded model checking (Kani/CBMC) of the real NodeId code: every slice of length 0..=64 through parse, '
             'all 32-byte values through new/raw/as_ref/From/PartialEq, every ASCII string of length 0..=70 through the '
             'real serde hex deserialiser against a reference acceptor. The solver decides each assertion for all inputs '
             'in those bounds; nothing is claimed for longer inputs. Serialize/Debug/Display (String formatting) are in the '
             'thorough tier.',
        note='Trusted: Kani/CBMC/CaDiCaL, rustc MIR->GOTO translation; serde driven through in-crate value (de)serialisers, '
             'not serde_json; non-ASCII strings outside the bound.',
        ref='DESIGN.md section 4/C16'),
}

NOT_APPLICABLE = {
}

PENDING = 'check under construction in this build phase (see DESIGN.md section 4); not claimed yet'


def main():
    props = [json.loads(l) for l in open(os.path.join(VERIF, 'properties.jsonl'))]
    checks, na = [], []
    for p in props:
        pid = p['id']
        if pid in CLAIMS and HR.select(pid, 'quick'):
            c = CLAIMS[pid]
            checks.append({
                'property_id': pid,
                'quick_cmd': './check %s --tier quick' % pid,
                'thorough_cmd': './check %s --tier thorough' % pid,
                'evidence_file': 'evidence/%s.json' % pid,
                'replay_cmd_template': './check %s --replay {path}' % pid,
                'engine': 'kani-cbmc',
                'level_claimed': {'category': 'model_checking', 'text': c['text'], 'design_ref': c['ref']},
                'level_note': c['note'],
                'technique': TECH,
            })
        else:
            na.append({'property_id': pid, 'reason': NOT_APPLICABLE.get(pid, PENDING)})
    m = {
        'version': 1,
        'setup_cmd': './setup.sh',
        'hooks': {
            'guard': 'none',
            'enable': 'no hooks in /repo: checks copy /repo to a scratch directory and apply tools/rewrite.py '
                      '(BTreeMap -> model, exports for an out-of-crate key scheme, scaled MAX_ENR_SIZE) to the copy',
            'baseline_off_cmd': 'cd /repo && cargo test --workspace --no-fail-fast --offline',
            'source_commits': [],
            'add_only': True,
        },
        'engines': [{
            'name': 'kani-cbmc', 'path': 'check',
            'serves_properties': [c['property_id'] for c in checks],
            'kind_free_text': 'cargo kani (Kani 0.68.0, CBMC 6.11.0, CaDiCaL) over harness crates generated from /repo on every run; runner tools/runner.py',
        }],
        'checks': checks,
        'not_applicable': na,
        'notes': 'Exit 2 of a check means inconclusive (cap hit, bound exceeded, vacuous harness, non-reproducing counterexample); '
                 'it is never reported as success. Results are memoised in .cache/ under a hash of the regenerated sources, '
                 'harness crate, shims and bounds (VERIF_NOCACHE=1 disables).',
    }
    out = os.path.join(VERIF, 'MANIFEST.json')
    json.dump(m, open(out, 'w'), indent=1)
    try:
        import jsonschema
        jsonschema.validate(m, json.load(open('/root/.vp/MANIFEST.schema.json')))
        print('MANIFEST.json valid: %d checks, %d not_applicable' % (len(checks), len(na)))
    except ImportError:
        print('MANIFEST.json written (jsonschema not importable here)')


if __name__ == '__main__':
    main()
