#!/usr/bin/env python3
"""Writes /verif/MANIFEST.json from the table below (kept next to the harness registry so the two
cannot drift) and validates it against the schema when jsonschema is importable."""
import json
import os
import sys

HERE = os.path.dirname(os.path.abspath(__file__))
VERIF = os.path.dirname(HERE)
sys.path.insert(0, HERE)
import harnesses as HR  # noqa: E402

TECH = ('bounded model checking of the compiled Rust code: Kani 0.68 -> CBMC 6.11 symbolic execution, '
        'SAT (CaDiCaL) decides every assertion for all inputs within the stated bounds; '
        'counterexamples replayed natively')

U_NOTE = ('Instantiation: Enr<MKey> (model identity scheme: 1-byte public keys under "k", variable-length signatures 3..=6 bytes, '
          'signer that can fail), generic code of lib.rs/builder.rs as compiled; MAX_ENR_SIZE scaled to 32 by the rewriter '
          '(literal change still visible: scaled = 32 + (literal - 300)); std BTreeMap and bytes replaced by models (validated by '
          'the repo test-suite natively, counterexamples replayed against the real ones); enr::digest stubbed by an injective '
          'function on 1-byte keys; Enr::id stubbed where incidental; <[u8]>::to_vec stubbed by a fixed-capacity copy. Records <= 40 '
          'bytes, <= 4 pairs; the 56-byte and 256-byte RLP header thresholds are outside the bound. Trusted: Kani/CBMC/CaDiCaL.')
U_SET = ('single-step harnesses u_set_tcp4, u_replace_tcp4, u_insert_raw (arbitrary/malformed raw RLP), u_set_seq, u_remove_key, '
         'u_set_udp_socket4, u_remove_insert, u_set_public_key: ONE mutator call with symbolic arguments from an ARBITRARY valid '
         'pre-state (any 64-bit seq, any key, valid signature of any admissible length) with a symbolic signer (same or different '
         'key, may fail, any signature length). One inductive step from a symbolic valid state covers call histories of any length; '
         'the signing fault is one symbolic bit.')

CLAIMS = {
    'C01': dict(
        text='Bounded model checking of the real decoder with an UNINTERPRETED verifier (d_min_lite: every filling of the template [sig4, seq, id:<2 bytes>, k:<key>] '
             'followed by 0 or 43 arbitrary bytes): a record is accepted only if the verifier was consulted, answered yes, and was asked about the public key carried in that very record; '
             'verify() itself is pinned on arbitrary by-parts records (a_verify_iff: true exactly for id v4 and a signature of the carried key over the record content). '
             'The k256 verify_v4 glue harness (high-S twin) is written but does not finish within the caps and is not part of any tier.',
        note='What is decided is the wiring around the signature primitive (what is verified, with which key, what is done with the answer), for the model scheme MKey; '
             'unforgeability and the arithmetic of k256 / libsecp256k1 / ed25519-dalek are trusted. The message handed to the verifier is checked by length and three sampled bytes only. '
             'rust-secp256k1 and ed25519 verify_v4 are not covered (primitive behind FFI / trait seams).',
        ref='DESIGN.md section 4/C01'),
    'C02': dict(
        text='Bounded model checking of the real decoder: d_min_lite decides accept <=> (well-formed and verifier says yes) for ALL fillings of the minimal template; the size gate and prefix-locality '
             'are decided on the scaled limit for items of 20/32/33 bytes followed by every suffix length 0..=27 of arbitrary bytes; every other structural rule (ordering, duplicates, missing value/id/key, '
             'ill-typed tcp/tcp6/udp/udp6/ip/ip6, non-canonical integers and lengths, list-for-string, outer header forms, overrun) is decided on 46 concrete probe records (13 must be accepted verbatim, '
             '33 must be rejected although the verifier says yes), which fold completely and stay decidable for changed decoders.',
        note='Templates with more than two pairs and symbolic payload exhaust memory (measured), so the per-rule checks are concrete inputs, not for-all; records <= 40 bytes; MKey instantiation; '
             'public keys of the built-in schemes (valid-key clause) are outside this check.',
        ref='DESIGN.md section 4/C02'),
    'C03': dict(
        text='Every harness of every family is checked by Kani for reachable panics (unwrap/expect/index/slice/overflow/unreachable) and, where memory-safety checks are on, for invalid pointer use; '
             'a failing panic-class check in any harness registered here is a C03 violation (quick tier: a representative subset of 50 harnesses from every family, thorough tier: all 110). Dedicated obligations: get() on whatever insert_raw_rlp/builder stored (u_insert_raw, u_build_raw), '
             'public_key()/NodeId::from after every update step, all typed accessors on arbitrary one-item raw values, decoder and text parser on probe inputs, NodeId parse/deserialise on all inputs in bounds.',
        note='Totality is decided only inside the bounds of the harnesses listed; Debug/Display formatting of records is not executed (formatting machinery does not fit the caps); termination = unwinding assertions.',
        ref='DESIGN.md section 4/C03'),
    'C04': dict(
        text='Fragments decided: decoded records report custom and reserved values as the raw RLP of the input and re-encode to the input length (13 accepted probe records incl. empty/nested lists, empty string, '
             'single byte, 2^64-1); values stored by insert_raw_rlp / the builder are exactly the bytes given and readable through get() (u_insert_raw, u_build_raw); canonical text parses back (t_probes_accept). '
             '(to_base64 of a concrete record: harness written, does not finish.)',
        note='decode(encode(e)) == e for arbitrary e and byte-exact re-encoding are NOT decided for symbolic records: reading an encoded record back exhausts the solver (array-theory blow-up, DESIGN.md 11.2). '
             'JSON through serde_json not covered (serde driven by value (de)serialisers).',
        ref='DESIGN.md section 4/C04'),
    'C05': dict(
        text='Bounded model checking of the real mutators: ' + U_SET + ' On Ok the post-state is asserted to be the sorted-map model '
             'result, signed by the signer over exactly that content (MAC model), with the signer\'s key and node id, within the '
             'size limit; verify() itself is pinned on by-parts records (a_verify_iff). Builder: u_build.',
        note=U_NOTE + ' "verifies" is decided compositionally (signature = signer MAC over model content, plus verify() <=> MAC match on '
             'arbitrary by-parts records), because reading an encoded post-state exhausts the solver.',
        ref='DESIGN.md section 4/C05'),
    'C06': dict(
        text='Same single-step harnesses: on every Err (size, sequence overflow, ill-typed/malformed value, signer failure - each driven '
             'by a symbolic input) sequence number, node id, signature bytes, every pair and the encoding length are asserted equal '
             'to the snapshot taken before the call.',
        note=U_NOTE, ref='DESIGN.md section 4/C06'),
    'C07': dict(
        text='Same single-step harnesses with a free 64-bit sequence number: Ok => seq+1 (set_seq: exactly the requested value), '
             '2^64-1 => Err(SequenceNumberTooHigh) and no wrap; decode side: d_min (sequence number item of the input is what seq() reports).',
        note=U_NOTE, ref='DESIGN.md section 4/C07'),
    'C08': dict(
        text='Same single-step harnesses against a sorted-map model: pairs after Ok are exactly the model\'s (iteration order, keys, raw values), '
             'return values are the previous values, each error kind is reported only when its cause is present, malformed raw values and '
             'ill-typed reserved values are refused with InvalidRlpData, set_public_key(own key) succeeds.',
        note=U_NOTE, ref='DESIGN.md section 4/C08'),
    'C09': dict(
        text='Same single-step harnesses on a scaled limit (32): every record handed out has size() == length predicted from the parts and <= limit; '
             'Err(ExceedsMaxSize) exactly when the candidate (old signature) or the finished record (new seq, new signature of another length) exceeds it. '
             'The literal 300 is pinned at the decoder by d_gate on the unscaled source.',
        note=U_NOTE, ref='DESIGN.md section 4/C09'),
    'C10': dict(
        text='Same single-step harnesses and decode templates: node id == digest(public key stored) == NodeId::from(public_key()), unchanged under '
             'same-key updates, re-keyed under other-key updates (injective digest stub).',
        note=U_NOTE + ' Keccak-256 itself and k256 point decompression are trusted (pinned by the suite\'s vector tests).',
        ref='DESIGN.md section 4/C10'),
    'C11': dict(
        text='FRAGMENT only: CombinedKey::enr_to_public uses the secp256k1 entry whenever it is present and valid, else the ed25519 entry, else fails; the k256 and ed25519 key types consult only their own entry '
             '(all presence x validity combinations, point decoding stubbed by symbolic validity bits); key names of the back-ends; ed25519 / rust-secp256k1 uncompressed encodings.',
        note='The main clause (three back-ends accept exactly the same inputs and agree on all reported fields) is a statement about the arithmetic of three independent crypto libraries, one behind FFI, and is NOT decided by this check.',
        ref='DESIGN.md section 4/C11'),
    'C12': dict(
        text='Strict parsing decided on concrete probe texts through the real from_str / base64 engine / decoder (fold completely): canonical text accepted with and without prefix (incl. the - and _ characters); '
             'repeated / upper-case / malformed prefix, padding, standard alphabet, blanks, newline, non-zero trailing bits, a byte after the record, an extra or missing character all rejected; Deserialize as strict as from_str.',
        note='Concrete inputs, not for-all: the base64 engine on symbolic text does not fit the caps (82 s for 8 characters; a record needs 23). Error-message formatting stubbed on reject paths. Display/Serialize of records: harnesses written, do not finish (String formatting).',
        ref='DESIGN.md section 4/C12'),
    'C13': dict(
        text='Decided on the scaled limit (32): an item of 20, 32 or 33 bytes followed by EVERY suffix length 0..=27 of arbitrary bytes gets the outcome of the item alone (size error exactly above the limit); '
             'the minimal template followed by 0 or 43 arbitrary bytes is accepted/rejected as without suffix and the slice is advanced by exactly the item length.',
        note='Suffix lengths are enumerated as concrete slice lengths selected by a symbolic value (a symbolic slice length defeats constant folding in CBMC); buffers <= 60 bytes; sequences/lists of records not covered.',
        ref='DESIGN.md section 4/C13'),
    'C14': dict(
        text='Bounded model checking of every typed accessor against a reference decoder on records assembled from arbitrary parts: all one-item raw values '
             '<= 4 bytes under each port key (all 65536 ports and every malformed form), <= 6 / <= 18 bytes under ip / ip6, id, get_decodable::<u64>; '
             'socket getters and reachability flags equal the combination of the single getters for six concrete presence sets (quick) and all 64 '
             'combinations (thorough); setter side (stores canonical encoding, reads back) in the update-step harnesses.',
        note='Values restricted to exactly one RLP item (what the library can hand out, established by the update-step harnesses); lossy UTF-8 stub exact on ASCII <= 4 bytes; '
             'client_info strings not covered yet. Trusted: Kani/CBMC, map/bytes models.',
        ref='DESIGN.md section 4/C14'),
    'C15': dict(
        text='Bounded model checking on pairs/triples of records assembled from arbitrary parts (any seq, any node id, signatures of 0..=6 bytes): '
             'a == b <=> (seq, node id, signature) equal; equal => identical writes to a recording Hasher; clone equals original field by field; '
             'symmetry, reflexivity, transitivity; compare_content <=> same seq and same pairs regardless of signature.',
        note='"Equal records carry identical pairs" holds for real schemes only under collision resistance of the signature scheme (trusted). Records with <= 2 pairs, values <= 3 bytes.',
        ref='DESIGN.md section 4/C15'),
    'C16': dict(
        text='Bounded model checking (Kani/CBMC) of the real NodeId code: every slice of length 0..=64 through parse, '
             'all 32-byte values through new/raw/as_ref/From/PartialEq, every ASCII string of length 0..=70 through the '
             'real serde hex deserialiser against a reference acceptor. The solver decides each assertion for all inputs '
             'in those bounds; nothing is claimed for longer inputs. Serialize/Debug/Display harnesses (String formatting) are written but do not finish within the caps.',
        note='Trusted: Kani/CBMC/CaDiCaL, rustc MIR->GOTO translation; serde driven through in-crate value (de)serialisers, '
             'not serde_json; non-ASCII strings outside the bound.',
        ref='DESIGN.md section 4/C16'),
}

NOT_APPLICABLE = {
    'C17': 'CombinedKey import/export: the validity range check lives in crypto-bigint constant-time code that Kani models differently from the real build (probe counterexample ff..fe baae..4141 < n does not replay), '
           'public-key derivation is EC scalar multiplication / SHA-512 (out of reach for bit-blasting), and ed25519 import offers only trait seams that Kani cannot stub; no sound solver-based check could be built.',
}

PENDING = 'check under construction in this build phase (see DESIGN.md section 4); not claimed yet'


def main():
    props = [json.loads(l) for l in open(os.path.join(VERIF, 'properties.jsonl'))]
    checks, na = [], []
    for p in props:
        pid = p['id']
        if pid in CLAIMS and HR.select(pid, 'quick'):
            c = CLAIMS[pid]
            checks.append({
                'property_id': pid,
                'quick_cmd': './check %s --tier quick' % pid,
                'thorough_cmd': './check %s --tier thorough' % pid,
                'evidence_file': 'evidence/%s.json' % pid,
                'replay_cmd_template': './check %s --replay {path}' % pid,
                'engine': 'kani-cbmc',
                'level_claimed': {'category': 'model_checking', 'text': c['text'], 'design_ref': c['ref']},
                'level_note': c['note'],
                'technique': TECH,
            })
        else:
            na.append({'property_id': pid, 'reason': NOT_APPLICABLE.get(pid, PENDING)})
    m = {
        'version': 1,
        'setup_cmd': './setup.sh',
        'hooks': {
            'guard': 'none',
            'enable': 'no hooks in /repo: checks copy /repo to a scratch directory and apply tools/rewrite.py '
                      '(BTreeMap -> model, exports for an out-of-crate key scheme, scaled MAX_ENR_SIZE) to the copy',
            'baseline_off_cmd': 'cd /repo && cargo test --workspace --no-fail-fast --offline',
            'source_commits': [],
            'add_only': True,
        },
        'engines': [{
            'name': 'kani-cbmc', 'path': 'check',
            'serves_properties': [c['property_id'] for c in checks],
            'kind_free_text': 'cargo kani (Kani 0.68.0, CBMC 6.11.0, CaDiCaL) over harness crates generated from /repo on every run; runner tools/runner.py',
        }],
        'checks': checks,
        'not_applicable': na,
        'notes': 'Exit 2 of a check means inconclusive (cap hit, bound exceeded, vacuous harness, non-reproducing counterexample); '
                 'it is never reported as success. Results are memoised in .cache/ under a hash of the regenerated sources, '
                 'harness crate, shims and bounds (VERIF_NOCACHE=1 disables).',
    }
    out = os.path.join(VERIF, 'MANIFEST.json')
    json.dump(m, open(out, 'w'), indent=1)
    try:
        import jsonschema
        jsonschema.validate(m, json.load(open('/root/.vp/MANIFEST.schema.json')))
        print('MANIFEST.json valid: %d checks, %d not_applicable' % (len(checks), len(na)))
    except ImportError:
        print('MANIFEST.json written (jsonschema not importable here)')


if __name__ == '__main__':
    main()
