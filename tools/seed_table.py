#!/usr/bin/env python3
"""prints the markdown table of seeded changes and their detection status (seeded/RESULTS.json)"""
import json, os
V = os.path.dirname(os.path.dirname(os.path.abspath(__file__)))
res = json.load(open(os.path.join(V, 'seeded', 'RESULTS.json')))
rows = []
for d in sorted(os.listdir(os.path.join(V, 'seeded'))):
    mp = os.path.join(V, 'seeded', d, 'meta.json')
    if not os.path.exists(mp):
        continue
    m = json.load(open(mp))
    r = res.get(d)
    if r is None:
        st = 'not run'
    elif r['exit'] == 1:
        hs = sorted(set(l.split('replay=')[1].split('/')[-1].split('.')[0] for l in r['lines'] if l.startswith('VIOLATION')))
        st = '**VIOLATION** (%s, %s tier): %s' % (r['property'], r['tier'], ', '.join(hs))
    elif r['exit'] == 2:
        st = 'inconclusive (exit 2): ' + '; '.join(l[6:120] for l in r['lines'] if l.startswith('NOTE'))[:160]
    else:
        st = 'MISSED (exit 0) by ' + ', '.join(r['harnesses'])
    rows.append('| %s | %s | %s | %s |' % (d, m['breaks_property'], m['needs_to_manifest'][:150], st))
print('| seed | property | what it needs to manifest | result of the check |\n|---|---|---|---|')
print('\n'.join(rows))
