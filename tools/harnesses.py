"""Registry of proof harnesses: which crate/variant they are built in, which properties they carry
obligations for, the bounds they run under and the resources they are allowed.

variant : how the scratch copy of /repo is prepared (tools/rewrite.py)
          'plain' = model map, MAX_ENR_SIZE as in the source (300)
          'mNN'   = model map, MAX_ENR_SIZE scaled to NN
tier    : 'quick' harnesses run in both tiers, 'thorough' only in the thorough tier
props   : properties whose `Cxx:`-prefixed assertions this harness contains
unwind  : global loop bound (unwinding assertions always on)
covers  : cover! messages that must be SATISFIED for the run to count (vacuity guard)
"""


class H:
    def __init__(self, name, crate, props, tier='quick', variant='plain', unwind=None,
                 unwindset=(), mem_gb=6, timeout=600, covers=(), flags=(), panics=True,
                 bounds='', cbmc=(), witness=False):
        self.name = name
        self.crate = crate
        self.props = list(props)
        self.tier = tier
        self.variant = variant
        self.unwind = unwind
        self.unwindset = list(unwindset)   # [(function-name regex, loop index or None, bound)]
        self.mem_gb = mem_gb
        self.timeout = timeout
        self.covers = list(covers)
        self.flags = list(flags)
        self.panics = panics               # panic-class checks of this harness count for C03
        self.bounds = bounds               # human-readable statement of the bounds
        self.cbmc = list(cbmc)
        self.witness = witness             # reachability twin: its final assertion must FAIL


HARNESSES = [
    # ---- family N: NodeId (C16) -------------------------------------------------------------
    H('n_parse', 'harness', ['C16', 'C03'], unwind=66, mem_gb=4, timeout=300,
      covers=['parse Ok', 'parse Err short', 'parse Err long'],
      bounds='every byte slice of length 0..=64'),
    H('n_conv', 'harness', ['C16', 'C03'], unwind=34, mem_gb=4, timeout=300,
      covers=['distinct ids', 'equal ids'],
      bounds='all pairs of 32-byte values'),
    H('n_de_borrowed', 'harness', ['C16', 'C03'], unwind=72, mem_gb=8, timeout=900,
      covers=['deserialize Ok', 'deserialize Err'],
      bounds='every ASCII string of length 0..=70 (borrowed)'),
    H('n_de_owned', 'harness', ['C16', 'C03'], tier='thorough', unwind=72, mem_gb=8, timeout=1800,
      covers=['deserialize Ok', 'deserialize Err'],
      bounds='every ASCII string of length 0..=70 (owned String path)'),
    H('n_ser', 'harness', ['C16', 'C03'], unwind=68, mem_gb=8, timeout=900,
      bounds='all 32-byte values through Serialize'),
    H('n_fmt', 'harness', ['C16', 'C03'], tier='thorough', unwind=68, mem_gb=8, timeout=1800,
      bounds='all 32-byte values through Debug and Display'),
]

BY_NAME = {h.name: h for h in HARNESSES}


def select(prop, tier):
    out = []
    for h in HARNESSES:
        if prop not in h.props:
            continue
        if tier == 'quick' and h.tier != 'quick':
            continue
        out.append(h)
    return out
