"""Registry of proof harnesses: which crate/variant they are built in, which properties they carry
obligations for, the bounds they run under and the resources they are allowed.

variant : how the scratch copy of /repo is prepared (tools/rewrite.py)
          'plain' = model map, MAX_ENR_SIZE as in the source (300)
          'mNN'   = model map, MAX_ENR_SIZE scaled to NN
tier    : 'quick' harnesses run in both tiers, 'thorough' only in the thorough tier
props   : properties whose `Cxx:`-prefixed assertions this harness contains
unwind  : global loop bound (unwinding assertions always on)
covers  : cover! messages that must be SATISFIED for the run to count (vacuity guard)
"""


class H:
    def __init__(self, name, crate, props, tier='quick', variant='plain', unwind=None,
                 unwindset=(), mem_gb=6, timeout=600, covers=(), flags=(), panics=True,
                 bounds='', cbmc=(), witness=False):
        self.name = name
        self.crate = crate
        self.props = list(props)
        self.tier = tier
        self.variant = variant
        self.unwind = unwind
        self.unwindset = list(unwindset)   # [(function-name regex, loop index or None, bound)]
        self.mem_gb = mem_gb
        self.timeout = timeout
        self.covers = list(covers)
        self.flags = list(flags)
        self.panics = panics               # panic-class checks of this harness count for C03
        self.bounds = bounds               # human-readable statement of the bounds
        self.cbmc = list(cbmc)
        self.witness = witness             # reachability twin: its final assertion must FAIL


HARNESSES = [
    # ---- family N: NodeId (C16) -------------------------------------------------------------
    H('n_parse', 'harness', ['C16', 'C03'], unwind=66, mem_gb=4, timeout=300,
      covers=['parse Ok', 'parse Err short', 'parse Err long'],
      bounds='every byte slice of length 0..=64'),
    H('n_conv', 'harness', ['C16', 'C03'], unwind=34, mem_gb=4, timeout=300,
      covers=['distinct ids', 'equal ids'],
      bounds='all pairs of 32-byte values'),
    H('n_de_borrowed', 'harness', ['C16', 'C03'], unwind=72, mem_gb=8, timeout=900,
      covers=['deserialize Ok', 'deserialize Err'],
      bounds='every ASCII string of length 0..=70 (borrowed)'),
    H('n_de_prefix', 'harness', ['C16', 'C03'], unwind=72, mem_gb=8, timeout=900,
      covers=['accepted with 0x prefix', 'accepted without prefix', 'rejected two-character prefix', 'rejected four-character prefix'],
      bounds='0, 2 or 4 arbitrary ASCII characters followed by 64 fixed hex digits'),
    H('n_de_probes', 'harness', ['C16', 'C03'], unwind=72, mem_gb=8, timeout=600,
      bounds='eight concrete strings (repeated/upper-case prefix, blanks, 63/65 digits)'),
    H('n_de_owned', 'harness', ['C16', 'C03'], tier='thorough', unwind=72, mem_gb=8, timeout=1800,
      covers=['deserialize Ok', 'deserialize Err'],
      bounds='every ASCII string of length 0..=70 (owned String path)'),
    H('n_ser', 'harness', ['C16', 'C03'], tier='thorough', unwind=68, mem_gb=8, timeout=900,
      bounds='all 32-byte values through Serialize'),
    H('n_fmt', 'harness', ['C16', 'C03'], tier='thorough', unwind=68, mem_gb=8, timeout=1800,
      bounds='all 32-byte values through Debug and Display'),
    # ---- family A: accessors on arbitrary content (C14, C15) ----------------------------------
    H('a14_tcp', 'harness', ['C14', 'C03'], unwind=8, covers=['two-byte port', 'one-byte port', 'not a port'],
      bounds='every one-item raw value of <= 4 bytes under tcp'),
    H('a14_tcp6', 'harness', ['C14', 'C03'], unwind=8, covers=['two-byte port', 'one-byte port', 'not a port'],
      bounds='every one-item raw value of <= 4 bytes under tcp6'),
    H('a14_udp', 'harness', ['C14', 'C03'], unwind=8, covers=['two-byte port', 'one-byte port', 'not a port'],
      bounds='every one-item raw value of <= 4 bytes under udp'),
    H('a14_udp6', 'harness', ['C14', 'C03'], unwind=8, covers=['two-byte port', 'one-byte port', 'not a port'],
      bounds='every one-item raw value of <= 4 bytes under udp6'),
    H('a14_port_isolation', 'harness', ['C14', 'C03'], unwind=8, bounds='one entry under udp, all getters'),
    H('a14_ip4', 'harness', ['C14', 'C03'], unwind=8, covers=['valid ip', 'invalid ip'],
      bounds='every one-item raw value of <= 6 bytes under ip'),
    H('a14_ip6', 'harness', ['C14', 'C03'], unwind=20, covers=['valid ip6', 'invalid ip6'],
      bounds='every one-item raw value of <= 18 bytes under ip6'),
    H('a14_id', 'harness', ['C14', 'C03'], unwind=8, covers=['two-byte id', 'id is a list or non-canonical'],
      bounds='every one-item raw value of <= 4 bytes under id, ASCII payloads'),
    H('a14_decodable', 'harness', ['C14', 'C03'], unwind=12, covers=['eight-byte integer', 'not an integer'],
      bounds='every one-item raw value of <= 10 bytes under a custom key, decoded as u64'),
    H('a14_sockets', 'harness', ['C14', 'C03'], tier='thorough', unwind=20, mem_gb=16, timeout=2400,
      covers=['both udp sockets', 'addresses without usable udp ports', 'unreachable', 'tcp only'],
      bounds='all 64 presence combinations of ip/ip6/tcp/tcp6/udp/udp6 with symbolic raw values'),
    H('a14_sock_all', 'harness', ['C14', 'C03'], unwind=20, mem_gb=12, timeout=1200,
      covers=['both udp sockets', 'addresses without usable udp ports', 'unreachable', 'tcp only'],
      bounds='all six address/port keys present, symbolic raw values (valid and invalid)'),
    H('a14_sock_v4', 'harness', ['C14', 'C03'], unwind=20, mem_gb=12, timeout=1200, covers=['tcp only', 'unreachable'],
      bounds='ip/tcp/udp present, v6 keys absent, symbolic raw values'),
    H('a14_sock_v6', 'harness', ['C14', 'C03'], unwind=20, mem_gb=12, timeout=1200, covers=['tcp only', 'unreachable'],
      bounds='ip6/tcp6/udp6 present, v4 keys absent, symbolic raw values'),
    H('a14_sock_ips', 'harness', ['C14', 'C03'], unwind=20, mem_gb=12, timeout=1200, covers=['unreachable'],
      bounds='ip/ip6 present, no ports'),
    H('a14_sock_ports', 'harness', ['C14', 'C03'], unwind=20, mem_gb=12, timeout=1200, covers=['unreachable'],
      bounds='four ports present, no addresses'),
    H('a14_sock_cross', 'harness', ['C14', 'C03'], unwind=20, mem_gb=12, timeout=1200, covers=['unreachable'],
      bounds='ip with tcp6/udp6 only (crossed families)'),
    H('a15_eq_hash', 'harness', ['C15', 'C03'], unwind=40, mem_gb=8, timeout=1200,
      covers=['equal records', 'differ in signature only', 'differ in seq only'],
      bounds='two arbitrary records: any seq, any node id, signatures of 0..=6 bytes'),
    H('a15_transitive', 'harness', ['C15'], unwind=40, mem_gb=8, timeout=1200, covers=['chain of equal records'],
      bounds='three arbitrary records'),
    H('a15_compare_lengths', 'harness', ['C15', 'C03'], unwind=12, mem_gb=12, timeout=1800,
      bounds='records {k}, {k,n}, {k,n,z} with equal seq and equal leading pairs'),
    H('a15_compare_content', 'harness', ['C15', 'C03'], unwind=12, mem_gb=12, timeout=1800,
      covers=['same content, other signature', 'same seq and keys, other value'],
      bounds='two records with content {k, one custom one-byte key} and values of 1..=3 bytes'),
    # ---- family U: one update step from an arbitrary valid pre-state (C05-C10, C14, C03) --------
    H('u_set_tcp4', 'harness', ['C05', 'C06', 'C07', 'C08', 'C09', 'C10', 'C14', 'C03'], variant='m32', unwind=8, mem_gb=14, timeout=2400, covers=['update Ok', 'Err(ExceedsMaxSize)', 'Err(SequenceNumberTooHigh)', 'Err(SigningError)', 're-keyed'],
      bounds='pre-state {id,k}; set_tcp4(any port); any seq, valid signature of 3..=6 bytes, any signer (same/other key, may fail, sig 3..=6 bytes); MAX_ENR_SIZE scaled to 32'),
    H('u_insert_raw', 'harness', ['C05', 'C06', 'C07', 'C08', 'C09', 'C10', 'C14', 'C03'] + ['C04'], variant='m32', unwind=8, mem_gb=14, timeout=2400,
      covers=['update Ok', 'Err(SequenceNumberTooHigh)', 'Err(SigningError)', 're-keyed'] + ['Err(InvalidRlpData)', 'three-byte raw value stored'],
      bounds='pre-state {id,k}; insert_raw_rlp("x", any 0..=3 bytes incl. malformed); any seq, valid signature of 3..=6 bytes, any signer (same/other key, may fail, sig 3..=6 bytes); MAX_ENR_SIZE scaled to 32'),
    H('u_replace_tcp4', 'harness', ['C05', 'C06', 'C07', 'C08', 'C09', 'C10', 'C14', 'C03'], variant='m32', unwind=8, mem_gb=14, timeout=2400, covers=['update Ok', 'Err(ExceedsMaxSize)', 'Err(SequenceNumberTooHigh)', 'Err(SigningError)', 're-keyed'],
      bounds='pre-state {id,k,tcp:any port}; set_tcp4(any port); any seq, valid signature of 3..=6 bytes, any signer (same/other key, may fail, sig 3..=6 bytes); MAX_ENR_SIZE scaled to 32'),
    H('u_set_seq', 'harness', ['C05', 'C06', 'C07', 'C08', 'C09', 'C10', 'C14', 'C03'], variant='m32', unwind=8, mem_gb=14, timeout=2400,
      covers=['update Ok', 'Err(ExceedsMaxSize)', 'Err(SigningError)', 're-keyed'] + ['set to 2^64-1', 'set to a smaller number'],
      bounds='pre-state {id,k,tcp}; set_seq(any u64); any seq, valid signature of 3..=6 bytes, any signer (same/other key, may fail, sig 3..=6 bytes); MAX_ENR_SIZE scaled to 32'),
    H('u_remove_key', 'harness', ['C05', 'C06', 'C07', 'C08', 'C09', 'C10', 'C14', 'C03'], variant='m32', unwind=8, mem_gb=14, timeout=2400, covers=['update Ok', 'Err(SequenceNumberTooHigh)', 'Err(SigningError)', 're-keyed'],
      bounds='pre-state {id,k,tcp}; remove_key("tcp"); any seq, valid signature of 3..=6 bytes, any signer (same/other key, may fail, sig 3..=6 bytes); MAX_ENR_SIZE scaled to 32'),
    H('u_set_udp_socket4', 'harness', ['C05', 'C06', 'C07', 'C08', 'C09', 'C10', 'C14', 'C03'], variant='m32', unwind=8, mem_gb=14, timeout=2400, covers=['update Ok', 'Err(ExceedsMaxSize)', 'Err(SigningError)', 're-keyed'],
      bounds='pre-state {id,k} with seq < 2^32 (keeps every candidate encoding within the 40-byte buffers); set_udp_socket(any IPv4 address, any port); any seq, valid signature of 3..=6 bytes, any signer (same/other key, may fail, sig 3..=6 bytes); MAX_ENR_SIZE scaled to 32'),
    H('u_remove_insert', 'harness', ['C05', 'C06', 'C07', 'C08', 'C09', 'C10', 'C14', 'C03'], variant='m32', unwind=8, mem_gb=14, timeout=2400,
      covers=['update Ok', 'Err(ExceedsMaxSize)', 'Err(SequenceNumberTooHigh)', 'Err(SigningError)', 're-keyed'] + ['Err(InvalidRlpData)', 'two-byte port inserted'],
      bounds='pre-state {id,k,tcp}; remove_insert([tcp],[(udp, any payload of 0..=2 bytes)]); any seq, valid signature of 3..=6 bytes, any signer (same/other key, may fail, sig 3..=6 bytes); MAX_ENR_SIZE scaled to 32'),
    H('u_set_public_key', 'harness', ['C05', 'C06', 'C07', 'C08', 'C09', 'C10', 'C14', 'C03'], variant='m32', unwind=8, mem_gb=14, timeout=2400,
      covers=['update Ok', 'Err(SequenceNumberTooHigh)', 'Err(SigningError)', 're-keyed'] + ["set to the signer's own key"],
      bounds='pre-state {id,k}; set_public_key(any key of the scheme); any seq, valid signature of 3..=6 bytes, any signer (same/other key, may fail, sig 3..=6 bytes); MAX_ENR_SIZE scaled to 32'),
    H('u_remove_absent', 'harness', ['C05', 'C06', 'C07', 'C08', 'C09', 'C10', 'C14', 'C03'], variant='m32', unwind=8, mem_gb=14, timeout=2400,
      covers=['update Ok', 'Err(SequenceNumberTooHigh)', 'Err(SigningError)', 're-keyed'],
      bounds='pre-state {id,k,tcp}; remove_key("udp") (absent key); any seq, valid signature of 3..=6 bytes, any signer (same/other key, may fail, sig 3..=6 bytes); MAX_ENR_SIZE scaled to 32'),
    H('u_set_tcp_socket4', 'harness', ['C05', 'C06', 'C07', 'C08', 'C09', 'C10', 'C14', 'C03'], variant='m32', unwind=8, mem_gb=14, timeout=2400,
      covers=['update Ok', 'Err(ExceedsMaxSize)', 'Err(SigningError)', 're-keyed'],
      bounds='pre-state {id,k} with seq < 2^32; set_tcp_socket(any IPv4 address, any port); any seq, valid signature of 3..=6 bytes, any signer (same/other key, may fail, sig 3..=6 bytes); MAX_ENR_SIZE scaled to 32'),
    H('u_set_udp_socket6', 'harness', ['C05', 'C06', 'C07', 'C08', 'C09', 'C10', 'C14', 'C03'], tier='thorough', variant='m48b56', unwind=8, mem_gb=30, timeout=3600,
      covers=['update Ok', 'Err(ExceedsMaxSize)', 'Err(SigningError)', 're-keyed'],
      bounds='pre-state {id,k} with seq < 2^16; set_udp_socket(IPv6 address with 3 symbolic bytes, any port); any seq, valid signature of 3..=6 bytes, any signer (same/other key, may fail, sig 3..=6 bytes); MAX_ENR_SIZE scaled to 48, buffers 56 bytes'),
    H('u_build', 'harness', ['C05', 'C07', 'C08', 'C09', 'C10', 'C14', 'C03'], variant='m32', unwind=8, mem_gb=26, timeout=2400,
      covers=['build Ok', 'Err(ExceedsMaxSize)', 'Err(SigningError)'],
      bounds='builder: any seq, tcp4(any port), any signer; MAX_ENR_SIZE scaled to 32'),
    H('u_build_raw', 'harness', ['C05', 'C07', 'C08', 'C09', 'C10', 'C04', 'C03'], variant='m32', unwind=8, mem_gb=14, timeout=2400,
      covers=['build Ok', 'Err(SigningError)', 'Err(InvalidRlpData)'],
      bounds='builder: any seq, add_value_rlp("x", any 0..=3 bytes incl. malformed), any signer; MAX_ENR_SIZE scaled to 32'),
    H('a_verify_iff', 'harness', ['C05', 'C06', 'C01', 'C03'], variant='m32', unwind=8, mem_gb=14, timeout=2400,
      covers=['verifies', 'good signature, other identity scheme', 'v4 with a bad signature'],
      bounds='by-parts records {id:<any 2 bytes>, k, tcp:any port}, any seq, any signature of 0..=6 bytes'),
    # ---- family D: decoder on templates, oracle verifier (C01, C02, C04, C07, C10, C13, C03) ----
    H('d_min', 'harness', ['C01', 'C02', 'C04', 'C07', 'C10', 'C13'], tier='thorough', variant='m32', unwind=3, mem_gb=50, timeout=3600, flags=['--no-memory-safety-checks'],
      covers=['decode Ok', 'well-formed but signature rejected', 'signature fine but malformed'],
      bounds='template [sig4, seq 81xx, id:<2 bytes>, k:81xx]: all 2^64 fillings, uninterpreted verifier'),
    H('d_min_lite', 'harness', ['C01', 'C02', 'C13', 'C03'], variant='m32', unwind=3, mem_gb=30, timeout=3600, flags=['--no-memory-safety-checks'],
      covers=['decode Ok', 'well-formed but signature rejected'],
      bounds='template [sig4, seq 81xx, id:<2 bytes>, k:81xx] followed by 0 or 43 arbitrary bytes: all fillings, uninterpreted verifier'),
    H('d_gate_at', 'harness', ['C09', 'C02', 'C13', 'C03'], variant='m32', unwind=24, mem_gb=10, timeout=1200,
      covers=['longest suffix', 'nothing after the item'],
      bounds='scaled limit 32: an item of exactly 32 bytes followed by 0..=27 arbitrary bytes'),
    H('d_gate_above', 'harness', ['C09', 'C02', 'C13', 'C03'], variant='m32', unwind=24, mem_gb=10, timeout=1200,
      covers=['longest suffix', 'nothing after the item'],
      bounds='scaled limit 32: an item of 33 bytes followed by 0..=27 arbitrary bytes'),
    H('d_gate_small', 'harness', ['C09', 'C02', 'C13', 'C03'], variant='m32', unwind=24, mem_gb=10, timeout=1200,
      covers=['longest suffix', 'nothing after the item'],
      bounds='scaled limit 32: an item of 20 bytes followed by 0..=27 arbitrary bytes (buffer up to 47 bytes, longer than the limit)'),
    # ---- family G: key back-end glue, primitive stubbed (C01, C10, C11 fragment) ----------------
    H('g_k256_verify', 'harness-glue', ['C01', 'C03'], variant='plain', unwind=70, mem_gb=10, timeout=1500,
      unwindset=[(r'GenericArray<u8.*GenericSequence<u8>>::generate', 140), (r'block_buffer::BlockBuffer', 140)],
      covers=['signature accepted', 'EC equation said no', 'high-S rejected before the equation'],
      bounds='k256 verify_v4: any key object, any signature buffer of 0..=66 bytes, message "abcd"; EC equation stubbed'),
    H('g_ed_encode', 'harness-glue', ['C10', 'C11', 'C03'], variant='plain', unwind=34, mem_gb=6, timeout=900,
      bounds='ed25519 public-key encodings: any key object'),
    H('g_secp_encode_unc', 'harness-glue', ['C10', 'C11', 'C03'], variant='plain', unwind=67, mem_gb=6, timeout=900,
      bounds='rust-secp256k1 encode_uncompressed: any 65-byte FFI serialisation'),
    H('g_combined_precedence', 'harness-glue', ['C11', 'C03'], variant='plain', unwind=40, mem_gb=10, timeout=1800,
      covers=['both valid: secp256k1 wins', 'invalid secp256k1 entry: falls back to ed25519', 'no usable key'],
      bounds='CombinedKey::enr_to_public: presence of either entry x validity of either key (symbolic bits), point decoding stubbed'),
]

BY_NAME = {h.name: h for h in HARNESSES}


def select(prop, tier):
    out = []
    for h in HARNESSES:
        if prop not in h.props:
            continue
        if tier == 'quick' and h.tier != 'quick':
            continue
        out.append(h)
    return out
