//! Family D: the decoder on input templates (DESIGN.md section 3/D): item boundaries and key names
//! concrete, every payload byte symbolic, every byte in a header position concrete. The verifier
//! is an uninterpreted predicate (ORACLE mode): it records what it was asked and answers with the
//! symbolic boolean V_RET, so the assertions are about WHAT is verified and what is done with the
//! answer (C01), WHICH inputs are accepted (C02), what the decoded record reports (C04, C10) and
//! how much of the buffer is consumed (C13).
use crate::mkey::*;
use crate::refmodel::*;
use crate::sym;
use alloy_rlp::Decodable;
use enr::Enr;

fn oracle() {
    unsafe {
        SIGMODE = ORACLE;
        V_RET = sym::bool();
        V_CALLS = 0;
    }
}

/// observations taken from a decode result, before any assertion
pub struct Obs {
    pub ok: bool,
    pub calls: u32,
    pub vret: bool,
    pub vpub: u8,
    pub vsig: [u8; 4],
    pub vsig_len: usize,
    pub vmsg_len: usize,
    pub vmsg: [u8; 3],
    pub remaining: usize,
    pub seq: u64,
    pub sig_ok: bool,
    pub node_id_ok: bool,
    pub pk_acc: Option<u8>,
}

#[inline(always)]
fn observe(r: &Result<Enr<MKey>, alloy_rlp::Error>, remaining: usize, sig: &[u8; 4], pk: u8) -> Obs {
    let (calls, vret, vpub, vsig, vsig_len, vmsg_len, vmsg) =
        unsafe { (V_CALLS, V_RET, V_PUB, V_SIG, V_SIG_LEN, V_MSG_LEN, [V_MSG_0, V_MSG_1, V_MSG_LAST]) };
    let mut o = Obs { ok: r.is_ok(), calls, vret, vpub, vsig, vsig_len, vmsg_len, vmsg, remaining, seq: 0,
                      sig_ok: false, node_id_ok: false, pk_acc: None };
    if let Ok(e) = r {
        o.seq = e.seq();
        o.sig_ok = sym::eq_short(e.signature(), &sig[..]);
        o.node_id_ok = sym::eq32(&e.node_id().raw(), &hdigest(&[pk]));
        o.pk_acc = Some(e.public_key().0);
    }
    o
}

/// C01 obligations shared by the accepting templates: the verifier was consulted, said yes, and was
/// asked about the key and signature of this very record and a message of the expected shape
#[inline(always)]
fn c01_obligations(o: &Obs, sig: &[u8; 4], pk: u8, content_len: usize, seq_first: u8, last: u8) {
    assert!(!o.ok || o.calls >= 1, "C01: a record is accepted only after its signature was checked");
    assert!(!o.ok || o.vret, "C01: a record is accepted only if the verifier accepted the signature");
    assert!(!o.ok || o.vpub == pk, "C01: the signature is checked against the public key carried in the record");
    assert!(!o.ok || (o.vsig_len == 4 && o.vsig == *sig), "C01: the signature that is checked is the signature field of the input");
    assert!(!o.ok || (o.vmsg_len == content_len && o.vmsg[0] == 0xc0 + (content_len as u8 - 1)
                      && o.vmsg[1] == seq_first && o.vmsg[2] == last),
            "C01: the signed message is the content list [seq, pairs...] of the input");
    assert!(!o.ok || o.sig_ok, "C04: the decoded record reports the signature of the input");
    assert!(!o.ok || o.node_id_ok, "C10: the node id of a decoded record is the hash of the public key it carries");
    assert!(!o.ok || o.pk_acc == Some(pk), "C04: the public-key accessor reports the key stored in the input");
}

/// T-min: [d0][84 sig4][81 seq][82 'i' 'd'][82 v0 v1]['k'][81 pk]  (17 bytes)
#[cfg_attr(kani, kani::proof)]
#[cfg_attr(kani, kani::stub(enr::digest, digest_stub))]
#[cfg_attr(kani, kani::stub(enr::Enr::id, id_stub))]
#[cfg_attr(kani, kani::stub(<[u8]>::to_vec, to_vec_stub))]
pub fn d_min() {
    let sg: [u8; 4] = sym::bytes::<4>();
    let seq = sym::u8();
    let pk = sym::u8();
    let v: [u8; 2] = sym::bytes::<2>();
    let buf: [u8; 17] = [0xd0, 0x84, sg[0], sg[1], sg[2], sg[3], 0x81, seq, 0x82, b'i', b'd', 0x82, v[0], v[1], b'k', 0x81, pk];
    oracle();
    let mut s: &[u8] = &buf[..];
    let r = <Enr<MKey> as Decodable>::decode(&mut s);
    let o = observe(&r, s.len(), &sg, pk);
    let wf = v[0] == b'v' && v[1] == b'4' && seq >= 0x80 && pk >= 0x80;
    let pairs_ok = match &r {
        Ok(e) => e.get_raw_rlp(KNAME) == Some(&[0x81u8, pk][..]) && e.get_raw_rlp("id") == Some(&[0x82u8, b'v', b'4'][..]),
        Err(_) => true,
    };
    core::mem::forget(r);
    vcover!(o.ok, "decode Ok");
    vcover!(!o.ok && wf, "well-formed but signature rejected");
    vcover!(!o.ok && o.vret, "signature fine but malformed");
    assert!(o.ok == (wf && o.vret), "C02: the template is accepted exactly when it is well-formed and the signature verifies");
    c01_obligations(&o, &sg, pk, 12, 0x81, pk);
    assert!(!o.ok || o.seq == seq as u64, "C07: the decoded sequence number is the big-endian value of the input");
    assert!(!o.ok || pairs_ok, "C04: the decoded record reports exactly the pairs of the input");
    assert!(!o.ok || o.remaining == 0, "C13: a successful decode consumes exactly the item");
}

/// Decoder size gate on the UNSCALED source (literal 300). The input is an outer list header
/// announcing `l` payload bytes (long form f9 hi lo) whose first item is a list where the signature
/// string must be (so parsing stops right after the gate), followed by `extra` = 0..=1000 further
/// bytes in the buffer. `l` is concrete per harness (the symbolic executor must be able to fold
/// the header, otherwise it explores the whole decoder): item length 3 + l.
#[inline(always)]
fn gate_body(l: usize) {
    oracle();
    let extra = sym::usize();
    sym::assume(extra <= 1000);
    let mut buf = [0u8; 1304];
    buf[0] = 0xf9;
    buf[1] = (l >> 8) as u8;
    buf[2] = l as u8;
    buf[3] = 0xc0;
    let total = 3 + l;
    let mut s: &[u8] = &buf[..total + extra];
    let r = <Enr<MKey> as Decodable>::decode(&mut s);
    let size_err = matches!(r, Err(alloy_rlp::Error::Custom("enr exceeds max size")));
    let other_err = matches!(r, Err(alloy_rlp::Error::UnexpectedList));
    let is_ok = r.is_ok();
    core::mem::forget(r);
    vcover!(extra == 1000, "1000 bytes after the item");
    vcover!(extra == 0, "nothing after the item");
    assert!(!is_ok, "C02: a record whose signature item is a list is rejected");
    assert!(size_err == (total > 300), "C09: the decoder refuses for size exactly the items longer than 300 bytes, whatever follows them");
    assert!(size_err || other_err, "C13: an item within the limit is judged on its own content, whatever follows it");
}
#[cfg_attr(kani, kani::proof)]
#[cfg_attr(kani, kani::stub(enr::digest, digest_stub))]
#[cfg_attr(kani, kani::stub(enr::Enr::id, id_stub))]
pub fn d_gate_300() {
    gate_body(297)
}
#[cfg_attr(kani, kani::proof)]
#[cfg_attr(kani, kani::stub(enr::digest, digest_stub))]
#[cfg_attr(kani, kani::stub(enr::Enr::id, id_stub))]
pub fn d_gate_301() {
    gate_body(298)
}

/// T-min with the leanest set of observations (cost probe / fallback)
#[cfg_attr(kani, kani::proof)]
#[cfg_attr(kani, kani::stub(enr::digest, digest_stub))]
#[cfg_attr(kani, kani::stub(enr::Enr::id, id_stub))]
pub fn d_min_lite() {
    let sg: [u8; 4] = sym::bytes::<4>();
    let seq = sym::u8();
    let pk = sym::u8();
    let v: [u8; 2] = sym::bytes::<2>();
    let buf: [u8; 17] = [0xd0, 0x84, sg[0], sg[1], sg[2], sg[3], 0x81, seq, 0x82, b'i', b'd', 0x82, v[0], v[1], b'k', 0x81, pk];
    oracle();
    let mut s: &[u8] = &buf[..];
    let r = <Enr<MKey> as Decodable>::decode(&mut s);
    let ok = r.is_ok();
    let remaining = s.len();
    let (calls, vret, vpub) = unsafe { (V_CALLS, V_RET, V_PUB) };
    core::mem::forget(r);
    let wf = v[0] == b'v' && v[1] == b'4' && seq >= 0x80 && pk >= 0x80;
    vcover!(ok, "decode Ok");
    vcover!(!ok && wf, "well-formed but signature rejected");
    assert!(ok == (wf && vret), "C02: the template is accepted exactly when it is well-formed and the signature verifies");
    assert!(!ok || (calls >= 1 && vpub == pk), "C01: a record is accepted only after its signature was checked against the key it carries");
    assert!(!ok || remaining == 0, "C13: a successful decode consumes exactly the item");
}

