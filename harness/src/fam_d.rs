//! Family D: the decoder on input templates (DESIGN.md section 3/D): item boundaries and key names
//! concrete, every payload byte symbolic, every byte in a header position concrete. The verifier
//! is an uninterpreted predicate (ORACLE mode): it records what it was asked and answers with the
//! symbolic boolean V_RET, so the assertions are about WHAT is verified and what is done with the
//! answer (C01), WHICH inputs are accepted (C02), what the decoded record reports (C04, C10) and
//! how much of the buffer is consumed (C13).
use crate::mkey::*;
use crate::refmodel::*;
use crate::sym;
use alloy_rlp::Decodable;
use enr::Enr;

fn oracle() {
    unsafe {
        SIGMODE = ORACLE;
        V_RET = sym::bool();
        V_CALLS = 0;
    }
}

/// observations taken from a decode result, before any assertion
pub struct Obs {
    pub ok: bool,
    pub calls: u32,
    pub vret: bool,
    pub vpub: u8,
    pub vsig: [u8; 4],
    pub vsig_len: usize,
    pub vmsg_len: usize,
    pub vmsg: [u8; 3],
    pub remaining: usize,
    pub seq: u64,
    pub sig_ok: bool,
    pub node_id_ok: bool,
    pub pk_acc: Option<u8>,
}

#[inline(always)]
fn observe(r: &Result<Enr<MKey>, alloy_rlp::Error>, remaining: usize, sig: &[u8; 4], pk: u8) -> Obs {
    let (calls, vret, vpub, vsig, vsig_len, vmsg_len, vmsg) =
        unsafe { (V_CALLS, V_RET, V_PUB, V_SIG, V_SIG_LEN, V_MSG_LEN, [V_MSG_0, V_MSG_1, V_MSG_LAST]) };
    let mut o = Obs { ok: r.is_ok(), calls, vret, vpub, vsig, vsig_len, vmsg_len, vmsg, remaining, seq: 0,
                      sig_ok: false, node_id_ok: false, pk_acc: None };
    if let Ok(e) = r {
        o.seq = e.seq();
        o.sig_ok = sym::eq_short(e.signature(), &sig[..]);
        o.node_id_ok = sym::eq32(&e.node_id().raw(), &hdigest(&[pk]));
        o.pk_acc = Some(e.public_key().0);
    }
    o
}

/// C01 obligations shared by the accepting templates: the verifier was consulted, said yes, and was
/// asked about the key and signature of this very record and a message of the expected shape
#[inline(always)]
fn c01_obligations(o: &Obs, sig: &[u8; 4], pk: u8, content_len: usize, seq_first: u8, last: u8) {
    assert!(!o.ok || o.calls >= 1, "C01: a record is accepted only after its signature was checked");
    assert!(!o.ok || o.vret, "C01: a record is accepted only if the verifier accepted the signature");
    assert!(!o.ok || o.vpub == pk, "C01: the signature is checked against the public key carried in the record");
    assert!(!o.ok || (o.vsig_len == 4 && o.vsig == *sig), "C01: the signature that is checked is the signature field of the input");
    assert!(!o.ok || (o.vmsg_len == content_len && o.vmsg[0] == 0xc0 + (content_len as u8 - 1)
                      && o.vmsg[1] == seq_first && o.vmsg[2] == last),
            "C01: the signed message is the content list [seq, pairs...] of the input");
    assert!(!o.ok || o.sig_ok, "C04: the decoded record reports the signature of the input");
    assert!(!o.ok || o.node_id_ok, "C10: the node id of a decoded record is the hash of the public key it carries");
    assert!(!o.ok || o.pk_acc == Some(pk), "C04: the public-key accessor reports the key stored in the input");
}

/// T-min: [d0][84 sig4][81 seq][82 'i' 'd'][82 v0 v1]['k'][81 pk]  (17 bytes)
#[cfg_attr(kani, kani::proof)]
#[cfg_attr(kani, kani::stub(enr::digest, digest_stub))]
#[cfg_attr(kani, kani::stub(enr::Enr::id, id_stub))]
#[cfg_attr(kani, kani::stub(<[u8]>::to_vec, to_vec_stub))]
pub fn d_min() {
    let sg: [u8; 4] = sym::bytes::<4>();
    let seq = sym::u8();
    let pk = sym::u8();
    let v: [u8; 2] = sym::bytes::<2>();
    let buf: [u8; 17] = [0xd0, 0x84, sg[0], sg[1], sg[2], sg[3], 0x81, seq, 0x82, b'i', b'd', 0x82, v[0], v[1], b'k', 0x81, pk];
    oracle();
    let mut s: &[u8] = &buf[..];
    let r = <Enr<MKey> as Decodable>::decode(&mut s);
    let o = observe(&r, s.len(), &sg, pk);
    let wf = v[0] == b'v' && v[1] == b'4' && seq >= 0x80 && pk >= 0x80;
    let pairs_ok = match &r {
        Ok(e) => e.get_raw_rlp(KNAME) == Some(&[0x81u8, pk][..]) && e.get_raw_rlp("id") == Some(&[0x82u8, b'v', b'4'][..]),
        Err(_) => true,
    };
    core::mem::forget(r);
    vcover!(o.ok, "decode Ok");
    vcover!(!o.ok && wf, "well-formed but signature rejected");
    vcover!(!o.ok && o.vret, "signature fine but malformed");
    assert!(o.ok == (wf && o.vret), "C02: the template is accepted exactly when it is well-formed and the signature verifies");
    c01_obligations(&o, &sg, pk, 12, 0x81, pk);
    assert!(!o.ok || o.seq == seq as u64, "C07: the decoded sequence number is the big-endian value of the input");
    assert!(!o.ok || pairs_ok, "C04: the decoded record reports exactly the pairs of the input");
    assert!(!o.ok || o.remaining == 0, "C13: a successful decode consumes exactly the item");
}

/// Decoder size gate and prefix-locality on the SCALED source (limit 32 = 32 + (literal - 300)): a
/// list item of `total` bytes whose first element is a list where the signature string must be (so
/// parsing stops right after the gate), followed by `extra` arbitrary further bytes. Buffers above
/// 64 bytes are not field-sensitive in CBMC and the decoder is then explored in full (measured:
/// out of memory), hence the scaled limit; `total` is concrete per harness for the same reason.
#[inline(always)]
fn gate_decode(s0: &[u8]) -> (bool, bool, bool) {
    let mut s: &[u8] = s0;
    let r = <Enr<MKey> as Decodable>::decode(&mut s);
    let size_err = matches!(r, Err(alloy_rlp::Error::Custom("enr exceeds max size")));
    let other_err = matches!(r, Err(alloy_rlp::Error::UnexpectedList));
    let is_ok = r.is_ok();
    core::mem::forget(r);
    (size_err, other_err, is_ok)
}

/// A symbolic slice LENGTH defeats the symbolic executor's constant folding of the header bytes
/// (measured: the whole decoder is then explored and memory runs out), so the suffix length is a
/// symbolic value that selects one of the concrete-length slices: all lengths 0..=27 are covered,
/// the suffix bytes themselves are arbitrary.
#[inline(always)]
fn gate_body(total: usize) {
    oracle();
    let extra = sym::usize();
    sym::assume(extra <= 27);
    let mut buf: [u8; 60] = sym::bytes::<60>();
    buf[0] = 0xc0 + (total as u8 - 1);
    buf[1] = 0xc0;
    let mut out = (false, false, true);
    macro_rules! pick { ($($e:expr),*) => { $( if extra == $e { out = gate_decode(&buf[..total + $e]); } )* } }
    pick!(0, 1, 2, 3, 4, 5, 6, 7, 8, 9, 10, 11, 12, 13, 14, 15, 16, 17, 18, 19, 20, 21, 22, 23, 24, 25, 26, 27);
    let (size_err, other_err, is_ok) = out;
    vcover!(extra == 27, "longest suffix");
    vcover!(extra == 0, "nothing after the item");
    assert!(!is_ok, "C02: a record whose signature item is a list is rejected");
    assert!(size_err == (total > enr::VERIF_MAX_ENR_SIZE), "C09: the decoder refuses for size exactly the items longer than the limit, whatever follows them");
    assert!(size_err || other_err, "C13: an item within the limit is judged on its own content, whatever follows it");
}
#[cfg_attr(kani, kani::proof)]
#[cfg_attr(kani, kani::stub(enr::digest, digest_stub))]
#[cfg_attr(kani, kani::stub(enr::Enr::id, id_stub))]
pub fn d_gate_at() {
    gate_body(32)
}
#[cfg_attr(kani, kani::proof)]
#[cfg_attr(kani, kani::stub(enr::digest, digest_stub))]
#[cfg_attr(kani, kani::stub(enr::Enr::id, id_stub))]
pub fn d_gate_above() {
    gate_body(33)
}
#[cfg_attr(kani, kani::proof)]
#[cfg_attr(kani, kani::stub(enr::digest, digest_stub))]
#[cfg_attr(kani, kani::stub(enr::Enr::id, id_stub))]
pub fn d_gate_small() {
    gate_body(20)
}

/// T-min with the leanest set of observations (cost probe / fallback)
#[cfg_attr(kani, kani::proof)]
#[cfg_attr(kani, kani::stub(enr::digest, digest_stub))]
#[cfg_attr(kani, kani::stub(enr::Enr::id, id_stub))]
pub fn d_min_lite() {
    let sg: [u8; 4] = sym::bytes::<4>();
    let seq = sym::u8();
    let pk = sym::u8();
    let v: [u8; 2] = sym::bytes::<2>();
    let t: [u8; 17] = [0xd0, 0x84, sg[0], sg[1], sg[2], sg[3], 0x81, seq, 0x82, b'i', b'd', 0x82, v[0], v[1], b'k', 0x81, pk];
    // the record is followed by `extra` arbitrary bytes (0..=43: up to a buffer of 60 bytes, well
    // above the scaled limit of 32)
    let mut buf: [u8; 60] = sym::bytes::<60>();
    buf[..17].copy_from_slice(&t);
    // suffix of 0 or 43 arbitrary bytes (a symbolic slice length defeats constant folding, see gate_body)
    let extra: usize = if sym::bool() { 43 } else { 0 };
    oracle();
    let mut s: &[u8] = if extra == 43 { &buf[..60] } else { &buf[..17] };
    let r = <Enr<MKey> as Decodable>::decode(&mut s);
    let ok = r.is_ok();
    let remaining = s.len();
    let (calls, vret, vpub) = unsafe { (V_CALLS, V_RET, V_PUB) };
    core::mem::forget(r);
    let wf = v[0] == b'v' && v[1] == b'4' && seq >= 0x80 && pk >= 0x80;
    vcover!(ok, "decode Ok");
    vcover!(!ok && wf, "well-formed but signature rejected");
    assert!(ok == (wf && vret), "C02: the template is accepted exactly when it is well-formed and the signature verifies");
    assert!(!ok || (calls >= 1 && vpub == pk), "C01: a record is accepted only after its signature was checked against the key it carries");
    vcover!(ok && extra == 43, "accepted with the longest suffix");
    assert!(!ok || remaining == extra, "C13: a successful decode consumes exactly the item, whatever follows it");
}



