//! Family D: the decoder on input templates (DESIGN.md section 3/D): item boundaries and key names
//! concrete, every payload byte symbolic, every byte in a header position concrete. The verifier
//! is an uninterpreted predicate (ORACLE mode): it records what it was asked and answers with the
//! symbolic boolean V_RET, so the assertions are about WHAT is verified and what is done with the
//! answer (C01), WHICH inputs are accepted (C02), what the decoded record reports (C04, C10) and
//! how much of the buffer is consumed (C13).
use crate::mkey::*;
use crate::refmodel::*;
use crate::sym;
use alloy_rlp::Decodable;
use enr::Enr;

fn oracle() {
    unsafe {
        SIGMODE = ORACLE;
        V_RET = sym::bool();
        V_CALLS = 0;
    }
}

/// observations taken from a decode result, before any assertion
pub struct Obs {
    pub ok: bool,
    pub calls: u32,
    pub vret: bool,
    pub vpub: u8,
    pub vsig: [u8; 4],
    pub vsig_len: usize,
    pub vmsg_len: usize,
    pub vmsg: [u8; 3],
    pub remaining: usize,
    pub seq: u64,
    pub sig_ok: bool,
    pub node_id_ok: bool,
    pub pk_acc: Option<u8>,
}

#[inline(always)]
fn observe(r: &Result<Enr<MKey>, alloy_rlp::Error>, remaining: usize, sig: &[u8; 4], pk: u8) -> Obs {
    let (calls, vret, vpub, vsig, vsig_len, vmsg_len, vmsg) =
        unsafe { (V_CALLS, V_RET, V_PUB, V_SIG, V_SIG_LEN, V_MSG_LEN, [V_MSG_0, V_MSG_1, V_MSG_LAST]) };
    let mut o = Obs { ok: r.is_ok(), calls, vret, vpub, vsig, vsig_len, vmsg_len, vmsg, remaining, seq: 0,
                      sig_ok: false, node_id_ok: false, pk_acc: None };
    if let Ok(e) = r {
        o.seq = e.seq();
        o.sig_ok = sym::eq_short(e.signature(), &sig[..]);
        o.node_id_ok = sym::eq32(&e.node_id().raw(), &hdigest(&[pk]));
        o.pk_acc = Some(e.public_key().0);
    }
    o
}

/// C01 obligations shared by the accepting templates: the verifier was consulted, said yes, and was
/// asked about the key and signature of this very record and a message of the expected shape
#[inline(always)]
fn c01_obligations(o: &Obs, sig: &[u8; 4], pk: u8, content_len: usize, seq_first: u8, last: u8) {
    assert!(!o.ok || o.calls >= 1, "C01: a record is accepted only after its signature was checked");
    assert!(!o.ok || o.vret, "C01: a record is accepted only if the verifier accepted the signature");
    assert!(!o.ok || o.vpub == pk, "C01: the signature is checked against the public key carried in the record");
    assert!(!o.ok || (o.vsig_len == 4 && o.vsig == *sig), "C01: the signature that is checked is the signature field of the input");
    assert!(!o.ok || (o.vmsg_len == content_len && o.vmsg[0] == 0xc0 + (content_len as u8 - 1)
                      && o.vmsg[1] == seq_first && o.vmsg[2] == last),
            "C01: the signed message is the content list [seq, pairs...] of the input");
    assert!(!o.ok || o.sig_ok, "C04: the decoded record reports the signature of the input");
    assert!(!o.ok || o.node_id_ok, "C10: the node id of a decoded record is the hash of the public key it carries");
    assert!(!o.ok || o.pk_acc == Some(pk), "C04: the public-key accessor reports the key stored in the input");
}

/// T-min: [d0][84 sig4][81 seq][82 'i' 'd'][82 v0 v1]['k'][81 pk]  (17 bytes)
#[cfg_attr(kani, kani::proof)]
#[cfg_attr(kani, kani::stub(enr::digest, digest_stub))]
#[cfg_attr(kani, kani::stub(enr::Enr::id, id_stub))]
#[cfg_attr(kani, kani::stub(<[u8]>::to_vec, to_vec_stub))]
pub fn d_min() {
    let sg: [u8; 4] = sym::bytes::<4>();
    let seq = sym::u8();
    let pk = sym::u8();
    let v: [u8; 2] = sym::bytes::<2>();
    let buf: [u8; 17] = [0xd0, 0x84, sg[0], sg[1], sg[2], sg[3], 0x81, seq, 0x82, b'i', b'd', 0x82, v[0], v[1], b'k', 0x81, pk];
    oracle();
    let mut s: &[u8] = &buf[..];
    let r = <Enr<MKey> as Decodable>::decode(&mut s);
    let o = observe(&r, s.len(), &sg, pk);
    let wf = v[0] == b'v' && v[1] == b'4' && seq >= 0x80 && pk >= 0x80;
    let pairs_ok = match &r {
        Ok(e) => e.get_raw_rlp(KNAME) == Some(&[0x81u8, pk][..]) && e.get_raw_rlp("id") == Some(&[0x82u8, b'v', b'4'][..]),
        Err(_) => true,
    };
    core::mem::forget(r);
    vcover!(o.ok, "decode Ok");
    vcover!(!o.ok && wf, "well-formed but signature rejected");
    vcover!(!o.ok && o.vret, "signature fine but malformed");
    assert!(o.ok == (wf && o.vret), "C02: the template is accepted exactly when it is well-formed and the signature verifies");
    c01_obligations(&o, &sg, pk, 12, 0x81, pk);
    assert!(!o.ok || o.seq == seq as u64, "C07: the decoded sequence number is the big-endian value of the input");
    assert!(!o.ok || pairs_ok, "C04: the decoded record reports exactly the pairs of the input");
    assert!(!o.ok || o.remaining == 0, "C13: a successful decode consumes exactly the item");
}

/// Decoder size gate and prefix-locality on the SCALED source (limit 32 = 32 + (literal - 300)): a
/// list item of `total` bytes whose first element is a list where the signature string must be (so
/// parsing stops right after the gate), followed by `extra` arbitrary further bytes. Buffers above
/// 64 bytes are not field-sensitive in CBMC and the decoder is then explored in full (measured:
/// out of memory), hence the scaled limit; `total` is concrete per harness for the same reason.
#[inline(always)]
fn gate_decode(s0: &[u8]) -> (bool, bool, bool) {
    let mut s: &[u8] = s0;
    let r = <Enr<MKey> as Decodable>::decode(&mut s);
    let size_err = matches!(r, Err(alloy_rlp::Error::Custom("enr exceeds max size")));
    let other_err = matches!(r, Err(alloy_rlp::Error::UnexpectedList));
    let is_ok = r.is_ok();
    core::mem::forget(r);
    (size_err, other_err, is_ok)
}

/// A symbolic slice LENGTH defeats the symbolic executor's constant folding of the header bytes
/// (measured: the whole decoder is then explored and memory runs out), so the suffix length is a
/// symbolic value that selects one of the concrete-length slices: all lengths 0..=27 are covered,
/// the suffix bytes themselves are arbitrary.
#[inline(always)]
fn gate_body(total: usize) {
    oracle();
    let extra = sym::usize();
    sym::assume(extra <= 27);
    let mut buf: [u8; 60] = sym::bytes::<60>();
    buf[0] = 0xc0 + (total as u8 - 1);
    buf[1] = 0xc0;
    let mut out = (false, false, true);
    macro_rules! pick { ($($e:expr),*) => { $( if extra == $e { out = gate_decode(&buf[..total + $e]); } )* } }
    pick!(0, 1, 2, 3, 4, 5, 6, 7, 8, 9, 10, 11, 12, 13, 14, 15, 16, 17, 18, 19, 20, 21, 22, 23, 24, 25, 26, 27);
    let (size_err, other_err, is_ok) = out;
    vcover!(extra == 27, "longest suffix");
    vcover!(extra == 0, "nothing after the item");
    assert!(!is_ok, "C02: a record whose signature item is a list is rejected");
    assert!(!(total > enr::VERIF_MAX_ENR_SIZE) || size_err, "C09: the decoder refuses every item longer than the limit");
    assert!(!size_err || total > enr::VERIF_MAX_ENR_SIZE, "C13: an item within the limit is not refused for size because of what follows it");
    assert!(size_err || other_err, "C13: an item within the limit is judged on its own content, whatever follows it");
}
#[cfg_attr(kani, kani::proof)]
#[cfg_attr(kani, kani::stub(enr::digest, digest_stub))]
#[cfg_attr(kani, kani::stub(enr::Enr::id, id_stub))]
pub fn d_gate_at() {
    gate_body(32)
}
#[cfg_attr(kani, kani::proof)]
#[cfg_attr(kani, kani::stub(enr::digest, digest_stub))]
#[cfg_attr(kani, kani::stub(enr::Enr::id, id_stub))]
pub fn d_gate_above() {
    gate_body(33)
}
#[cfg_attr(kani, kani::proof)]
#[cfg_attr(kani, kani::stub(enr::digest, digest_stub))]
#[cfg_attr(kani, kani::stub(enr::Enr::id, id_stub))]
pub fn d_gate_small() {
    gate_body(20)
}

/// T-min with the leanest set of observations (cost probe / fallback)
#[cfg_attr(kani, kani::proof)]
#[cfg_attr(kani, kani::stub(enr::digest, digest_stub))]
#[cfg_attr(kani, kani::stub(enr::Enr::id, id_stub))]
pub fn d_min_lite() {
    let sg: [u8; 4] = sym::bytes::<4>();
    let seq = sym::u8();
    let pk = sym::u8();
    let v: [u8; 2] = sym::bytes::<2>();
    let t: [u8; 17] = [0xd0, 0x84, sg[0], sg[1], sg[2], sg[3], 0x81, seq, 0x82, b'i', b'd', 0x82, v[0], v[1], b'k', 0x81, pk];
    // the record is followed by `extra` arbitrary bytes (0..=43: up to a buffer of 60 bytes, well
    // above the scaled limit of 32)
    let mut buf: [u8; 60] = sym::bytes::<60>();
    buf[..17].copy_from_slice(&t);
    // suffix of 0 or 43 arbitrary bytes (a symbolic slice length defeats constant folding, see gate_body)
    let extra: usize = if sym::bool() { 43 } else { 0 };
    oracle();
    let mut s: &[u8] = if extra == 43 { &buf[..60] } else { &buf[..17] };
    let r = <Enr<MKey> as Decodable>::decode(&mut s);
    let ok = r.is_ok();
    let remaining = s.len();
    let (calls, vret, vpub) = unsafe { (V_CALLS, V_RET, V_PUB) };
    core::mem::forget(r);
    let wf = v[0] == b'v' && v[1] == b'4' && seq >= 0x80 && pk >= 0x80;
    vcover!(ok, "decode Ok");
    vcover!(!ok && wf, "well-formed but signature rejected");
    assert!(ok == (wf && vret), "C02: the template is accepted exactly when it is well-formed and the signature verifies");
    assert!(!ok || (calls >= 1 && vpub == pk), "C01: a record is accepted only after its signature was checked against the key it carries");
    vcover!(ok && extra == 43, "accepted with the longest suffix");
    assert!(!ok || remaining == extra, "C13: a successful decode consumes exactly the item, whatever follows it");
}




// ------------------------------------------------------------------------------------------------
// Focused templates: a concrete valid record [sig 01020304, seq 0x90, id v4, k 0x99] plus ONE pair
// (or one varied field) whose bytes are symbolic, written as ARRAY LITERALS (buffers assembled at
// run time through pointers are not constant-propagated by the symbolic executor, measured).
// Each structural rule of C02 is decided for all values of the field under test.
// ------------------------------------------------------------------------------------------------

pub const BASE_SEQ: u8 = 0x90;
pub const BASE_PK: u8 = 0x99;

pub struct DOut {
    pub ok: bool,
    pub consumed_all: bool,
    pub rec: Option<Enr<MKey>>,
}
#[inline(always)]
pub fn run_decode(buf: &[u8]) -> DOut {
    let mut s: &[u8] = buf;
    let r = <Enr<MKey> as Decodable>::decode(&mut s);
    DOut { ok: r.is_ok(), consumed_all: s.is_empty(), rec: r.ok() }
}

/// tcp: value as a one-byte item, 81 xx, 82 xx xx, 83 xx xx xx with arbitrary bytes
#[cfg_attr(kani, kani::proof)]
#[cfg_attr(kani, kani::stub(enr::digest, digest_stub))]
#[cfg_attr(kani, kani::stub(enr::Enr::id, id_stub))]
pub fn d_val_tcp() {
    oracle();
    let v: [u8; 3] = sym::bytes::<3>();
    let shape = sym::u8();
    sym::assume(shape <= 3);
    let (mut ok, mut all, mut got) = (false, true, None);
    if shape == 0 {
        let buf: [u8; 22] = [0xd5, 0x84, 1, 2, 3, 4, 0x81, BASE_SEQ, 0x82, b'i', b'd', 0x82, b'v', b'4', b'k', 0x81, BASE_PK, 0x83, b't', b'c', b'p', v[0]];
        let o = run_decode(&buf[..]);
        ok = o.ok;
        all = o.consumed_all;
        if let Some(e) = &o.rec { got = e.tcp4(); }
        core::mem::forget(o);
    }
    if shape == 1 {
        let buf: [u8; 23] = [0xd6, 0x84, 1, 2, 3, 4, 0x81, BASE_SEQ, 0x82, b'i', b'd', 0x82, b'v', b'4', b'k', 0x81, BASE_PK, 0x83, b't', b'c', b'p', 0x81, v[0]];
        let o = run_decode(&buf[..]);
        ok = o.ok;
        all = o.consumed_all;
        if let Some(e) = &o.rec { got = e.tcp4(); }
        core::mem::forget(o);
    }
    if shape == 2 {
        let buf: [u8; 24] = [0xd7, 0x84, 1, 2, 3, 4, 0x81, BASE_SEQ, 0x82, b'i', b'd', 0x82, b'v', b'4', b'k', 0x81, BASE_PK, 0x83, b't', b'c', b'p', 0x82, v[0], v[1]];
        let o = run_decode(&buf[..]);
        ok = o.ok;
        all = o.consumed_all;
        if let Some(e) = &o.rec { got = e.tcp4(); }
        core::mem::forget(o);
    }
    if shape == 3 {
        let buf: [u8; 25] = [0xd8, 0x84, 1, 2, 3, 4, 0x81, BASE_SEQ, 0x82, b'i', b'd', 0x82, b'v', b'4', b'k', 0x81, BASE_PK, 0x83, b't', b'c', b'p', 0x83, v[0], v[1], v[2]];
        let o = run_decode(&buf[..]);
        ok = o.ok;
        all = o.consumed_all;
        if let Some(e) = &o.rec { got = e.tcp4(); }
        core::mem::forget(o);
    }
    let want: Option<u16> = match shape {
        0 => if v[0] != 0 && v[0] < 0x80 { Some(v[0] as u16) } else if v[0] == 0x80 { Some(0) } else { None },
        1 => if v[0] >= 0x80 { Some(v[0] as u16) } else { None },
        2 => if v[0] != 0 { Some(((v[0] as u16) << 8) | v[1] as u16) } else { None },
        _ => None,
    };
    let vret = unsafe { V_RET };
    vcover!(ok && shape == 2, "two-byte port accepted");
    vcover!(!ok && vret && shape == 2, "leading zero rejected");
    vcover!(!ok && vret && shape == 3, "three-byte value rejected");
    assert!(ok == (want.is_some() && vret), "C02: a port entry is accepted exactly when it is a canonical integer below 2^16 (and the signature verifies)");
    assert!(!ok || got == want, "C14: the decoded port accessor reports exactly the value of the input");
    assert!(!ok || all, "C13: a successful decode consumes exactly the item");
}

/// tcp6: value as a one-byte item, 81 xx, 82 xx xx, 83 xx xx xx with arbitrary bytes
#[cfg_attr(kani, kani::proof)]
#[cfg_attr(kani, kani::stub(enr::digest, digest_stub))]
#[cfg_attr(kani, kani::stub(enr::Enr::id, id_stub))]
pub fn d_val_tcp6() {
    oracle();
    let v: [u8; 3] = sym::bytes::<3>();
    let shape = sym::u8();
    sym::assume(shape <= 3);
    let (mut ok, mut all, mut got) = (false, true, None);
    if shape == 0 {
        let buf: [u8; 23] = [0xd6, 0x84, 1, 2, 3, 4, 0x81, BASE_SEQ, 0x82, b'i', b'd', 0x82, b'v', b'4', b'k', 0x81, BASE_PK, 0x84, b't', b'c', b'p', b'6', v[0]];
        let o = run_decode(&buf[..]);
        ok = o.ok;
        all = o.consumed_all;
        if let Some(e) = &o.rec { got = e.tcp6(); }
        core::mem::forget(o);
    }
    if shape == 1 {
        let buf: [u8; 24] = [0xd7, 0x84, 1, 2, 3, 4, 0x81, BASE_SEQ, 0x82, b'i', b'd', 0x82, b'v', b'4', b'k', 0x81, BASE_PK, 0x84, b't', b'c', b'p', b'6', 0x81, v[0]];
        let o = run_decode(&buf[..]);
        ok = o.ok;
        all = o.consumed_all;
        if let Some(e) = &o.rec { got = e.tcp6(); }
        core::mem::forget(o);
    }
    if shape == 2 {
        let buf: [u8; 25] = [0xd8, 0x84, 1, 2, 3, 4, 0x81, BASE_SEQ, 0x82, b'i', b'd', 0x82, b'v', b'4', b'k', 0x81, BASE_PK, 0x84, b't', b'c', b'p', b'6', 0x82, v[0], v[1]];
        let o = run_decode(&buf[..]);
        ok = o.ok;
        all = o.consumed_all;
        if let Some(e) = &o.rec { got = e.tcp6(); }
        core::mem::forget(o);
    }
    if shape == 3 {
        let buf: [u8; 26] = [0xd9, 0x84, 1, 2, 3, 4, 0x81, BASE_SEQ, 0x82, b'i', b'd', 0x82, b'v', b'4', b'k', 0x81, BASE_PK, 0x84, b't', b'c', b'p', b'6', 0x83, v[0], v[1], v[2]];
        let o = run_decode(&buf[..]);
        ok = o.ok;
        all = o.consumed_all;
        if let Some(e) = &o.rec { got = e.tcp6(); }
        core::mem::forget(o);
    }
    let want: Option<u16> = match shape {
        0 => if v[0] != 0 && v[0] < 0x80 { Some(v[0] as u16) } else if v[0] == 0x80 { Some(0) } else { None },
        1 => if v[0] >= 0x80 { Some(v[0] as u16) } else { None },
        2 => if v[0] != 0 { Some(((v[0] as u16) << 8) | v[1] as u16) } else { None },
        _ => None,
    };
    let vret = unsafe { V_RET };
    vcover!(ok && shape == 2, "two-byte port accepted");
    vcover!(!ok && vret && shape == 2, "leading zero rejected");
    vcover!(!ok && vret && shape == 3, "three-byte value rejected");
    assert!(ok == (want.is_some() && vret), "C02: a port entry is accepted exactly when it is a canonical integer below 2^16 (and the signature verifies)");
    assert!(!ok || got == want, "C14: the decoded port accessor reports exactly the value of the input");
    assert!(!ok || all, "C13: a successful decode consumes exactly the item");
}

/// udp: value as a one-byte item, 81 xx, 82 xx xx, 83 xx xx xx with arbitrary bytes
#[cfg_attr(kani, kani::proof)]
#[cfg_attr(kani, kani::stub(enr::digest, digest_stub))]
#[cfg_attr(kani, kani::stub(enr::Enr::id, id_stub))]
pub fn d_val_udp() {
    oracle();
    let v: [u8; 3] = sym::bytes::<3>();
    let shape = sym::u8();
    sym::assume(shape <= 3);
    let (mut ok, mut all, mut got) = (false, true, None);
    if shape == 0 {
        let buf: [u8; 22] = [0xd5, 0x84, 1, 2, 3, 4, 0x81, BASE_SEQ, 0x82, b'i', b'd', 0x82, b'v', b'4', b'k', 0x81, BASE_PK, 0x83, b'u', b'd', b'p', v[0]];
        let o = run_decode(&buf[..]);
        ok = o.ok;
        all = o.consumed_all;
        if let Some(e) = &o.rec { got = e.udp4(); }
        core::mem::forget(o);
    }
    if shape == 1 {
        let buf: [u8; 23] = [0xd6, 0x84, 1, 2, 3, 4, 0x81, BASE_SEQ, 0x82, b'i', b'd', 0x82, b'v', b'4', b'k', 0x81, BASE_PK, 0x83, b'u', b'd', b'p', 0x81, v[0]];
        let o = run_decode(&buf[..]);
        ok = o.ok;
        all = o.consumed_all;
        if let Some(e) = &o.rec { got = e.udp4(); }
        core::mem::forget(o);
    }
    if shape == 2 {
        let buf: [u8; 24] = [0xd7, 0x84, 1, 2, 3, 4, 0x81, BASE_SEQ, 0x82, b'i', b'd', 0x82, b'v', b'4', b'k', 0x81, BASE_PK, 0x83, b'u', b'd', b'p', 0x82, v[0], v[1]];
        let o = run_decode(&buf[..]);
        ok = o.ok;
        all = o.consumed_all;
        if let Some(e) = &o.rec { got = e.udp4(); }
        core::mem::forget(o);
    }
    if shape == 3 {
        let buf: [u8; 25] = [0xd8, 0x84, 1, 2, 3, 4, 0x81, BASE_SEQ, 0x82, b'i', b'd', 0x82, b'v', b'4', b'k', 0x81, BASE_PK, 0x83, b'u', b'd', b'p', 0x83, v[0], v[1], v[2]];
        let o = run_decode(&buf[..]);
        ok = o.ok;
        all = o.consumed_all;
        if let Some(e) = &o.rec { got = e.udp4(); }
        core::mem::forget(o);
    }
    let want: Option<u16> = match shape {
        0 => if v[0] != 0 && v[0] < 0x80 { Some(v[0] as u16) } else if v[0] == 0x80 { Some(0) } else { None },
        1 => if v[0] >= 0x80 { Some(v[0] as u16) } else { None },
        2 => if v[0] != 0 { Some(((v[0] as u16) << 8) | v[1] as u16) } else { None },
        _ => None,
    };
    let vret = unsafe { V_RET };
    vcover!(ok && shape == 2, "two-byte port accepted");
    vcover!(!ok && vret && shape == 2, "leading zero rejected");
    vcover!(!ok && vret && shape == 3, "three-byte value rejected");
    assert!(ok == (want.is_some() && vret), "C02: a port entry is accepted exactly when it is a canonical integer below 2^16 (and the signature verifies)");
    assert!(!ok || got == want, "C14: the decoded port accessor reports exactly the value of the input");
    assert!(!ok || all, "C13: a successful decode consumes exactly the item");
}

/// udp6: value as a one-byte item, 81 xx, 82 xx xx, 83 xx xx xx with arbitrary bytes
#[cfg_attr(kani, kani::proof)]
#[cfg_attr(kani, kani::stub(enr::digest, digest_stub))]
#[cfg_attr(kani, kani::stub(enr::Enr::id, id_stub))]
pub fn d_val_udp6() {
    oracle();
    let v: [u8; 3] = sym::bytes::<3>();
    let shape = sym::u8();
    sym::assume(shape <= 3);
    let (mut ok, mut all, mut got) = (false, true, None);
    if shape == 0 {
        let buf: [u8; 23] = [0xd6, 0x84, 1, 2, 3, 4, 0x81, BASE_SEQ, 0x82, b'i', b'd', 0x82, b'v', b'4', b'k', 0x81, BASE_PK, 0x84, b'u', b'd', b'p', b'6', v[0]];
        let o = run_decode(&buf[..]);
        ok = o.ok;
        all = o.consumed_all;
        if let Some(e) = &o.rec { got = e.udp6(); }
        core::mem::forget(o);
    }
    if shape == 1 {
        let buf: [u8; 24] = [0xd7, 0x84, 1, 2, 3, 4, 0x81, BASE_SEQ, 0x82, b'i', b'd', 0x82, b'v', b'4', b'k', 0x81, BASE_PK, 0x84, b'u', b'd', b'p', b'6', 0x81, v[0]];
        let o = run_decode(&buf[..]);
        ok = o.ok;
        all = o.consumed_all;
        if let Some(e) = &o.rec { got = e.udp6(); }
        core::mem::forget(o);
    }
    if shape == 2 {
        let buf: [u8; 25] = [0xd8, 0x84, 1, 2, 3, 4, 0x81, BASE_SEQ, 0x82, b'i', b'd', 0x82, b'v', b'4', b'k', 0x81, BASE_PK, 0x84, b'u', b'd', b'p', b'6', 0x82, v[0], v[1]];
        let o = run_decode(&buf[..]);
        ok = o.ok;
        all = o.consumed_all;
        if let Some(e) = &o.rec { got = e.udp6(); }
        core::mem::forget(o);
    }
    if shape == 3 {
        let buf: [u8; 26] = [0xd9, 0x84, 1, 2, 3, 4, 0x81, BASE_SEQ, 0x82, b'i', b'd', 0x82, b'v', b'4', b'k', 0x81, BASE_PK, 0x84, b'u', b'd', b'p', b'6', 0x83, v[0], v[1], v[2]];
        let o = run_decode(&buf[..]);
        ok = o.ok;
        all = o.consumed_all;
        if let Some(e) = &o.rec { got = e.udp6(); }
        core::mem::forget(o);
    }
    let want: Option<u16> = match shape {
        0 => if v[0] != 0 && v[0] < 0x80 { Some(v[0] as u16) } else if v[0] == 0x80 { Some(0) } else { None },
        1 => if v[0] >= 0x80 { Some(v[0] as u16) } else { None },
        2 => if v[0] != 0 { Some(((v[0] as u16) << 8) | v[1] as u16) } else { None },
        _ => None,
    };
    let vret = unsafe { V_RET };
    vcover!(ok && shape == 2, "two-byte port accepted");
    vcover!(!ok && vret && shape == 2, "leading zero rejected");
    vcover!(!ok && vret && shape == 3, "three-byte value rejected");
    assert!(ok == (want.is_some() && vret), "C02: a port entry is accepted exactly when it is a canonical integer below 2^16 (and the signature verifies)");
    assert!(!ok || got == want, "C14: the decoded port accessor reports exactly the value of the input");
    assert!(!ok || all, "C13: a successful decode consumes exactly the item");
}

/// ip: 84 + 4 arbitrary bytes is accepted; 83 + 3 bytes and 85 + 5 bytes are rejected
#[cfg_attr(kani, kani::proof)]
#[cfg_attr(kani, kani::stub(enr::digest, digest_stub))]
#[cfg_attr(kani, kani::stub(enr::Enr::id, id_stub))]
pub fn d_val_ip() {
    oracle();
    let v: [u8; 5] = sym::bytes::<5>();
    let shape = sym::u8();
    sym::assume(shape <= 2);
    let (mut ok, mut got) = (false, None);
    if shape == 0 {
        let buf: [u8; 25] = [0xd8, 0x84, 1, 2, 3, 4, 0x81, BASE_SEQ, 0x82, b'i', b'd', 0x82, b'v', b'4', 0x82, b'i', b'p', 0x84, v[0], v[1], v[2], v[3], b'k', 0x81, BASE_PK];
        let o = run_decode(&buf[..]);
        ok = o.ok;
        if let Some(e) = &o.rec { got = e.ip4(); }
        core::mem::forget(o);
    }
    if shape == 1 {
        let buf: [u8; 24] = [0xd7, 0x84, 1, 2, 3, 4, 0x81, BASE_SEQ, 0x82, b'i', b'd', 0x82, b'v', b'4', 0x82, b'i', b'p', 0x83, v[0], v[1], v[2], b'k', 0x81, BASE_PK];
        let o = run_decode(&buf[..]);
        ok = o.ok;
        if let Some(e) = &o.rec { got = e.ip4(); }
        core::mem::forget(o);
    }
    if shape == 2 {
        let buf: [u8; 26] = [0xd9, 0x84, 1, 2, 3, 4, 0x81, BASE_SEQ, 0x82, b'i', b'd', 0x82, b'v', b'4', 0x82, b'i', b'p', 0x85, v[0], v[1], v[2], v[3], v[4], b'k', 0x81, BASE_PK];
        let o = run_decode(&buf[..]);
        ok = o.ok;
        if let Some(e) = &o.rec { got = e.ip4(); }
        core::mem::forget(o);
    }
    let vret = unsafe { V_RET };
    vcover!(ok, "4-byte ip accepted");
    vcover!(!ok && vret && shape == 1, "3-byte ip rejected");
    assert!(ok == (shape == 0 && vret), "C02: an ip entry is accepted exactly when it is a 4-byte string");
    assert!(!ok || got == Some(std::net::Ipv4Addr::new(v[0], v[1], v[2], v[3])), "C14: the decoded ip accessor reports exactly the address of the input");
}

/// custom key "x" (after "k"): string of 0..=2 bytes, empty list, list with one byte, nested empty
/// lists. Accepted exactly for canonical items; the stored raw value is the input item verbatim.
#[cfg_attr(kani, kani::proof)]
#[cfg_attr(kani, kani::stub(enr::digest, digest_stub))]
#[cfg_attr(kani, kani::stub(enr::Enr::id, id_stub))]
pub fn d_val_custom() {
    oracle();
    let v: [u8; 2] = sym::bytes::<2>();
    let shape = sym::u8();
    sym::assume(shape <= 6);
    let (mut ok, mut raw_ok, mut size_ok) = (false, true, true);
    if shape == 0 {
        let buf: [u8; 19] = [0xd2, 0x84, 1, 2, 3, 4, 0x81, BASE_SEQ, 0x82, b'i', b'd', 0x82, b'v', b'4', b'k', 0x81, BASE_PK, b'x', 0x80];
        let val: &[u8] = &[0x80];
        let o = run_decode(&buf[..]);
        ok = o.ok;
        if let Some(e) = &o.rec {
            raw_ok = e.get_raw_rlp("x") == Some(val);
            size_ok = e.size() == 19;
        }
        core::mem::forget(o);
    }
    if shape == 1 {
        let buf: [u8; 19] = [0xd2, 0x84, 1, 2, 3, 4, 0x81, BASE_SEQ, 0x82, b'i', b'd', 0x82, b'v', b'4', b'k', 0x81, BASE_PK, b'x', v[0]];
        let val: &[u8] = &[v[0]];
        let o = run_decode(&buf[..]);
        ok = o.ok;
        if let Some(e) = &o.rec {
            raw_ok = e.get_raw_rlp("x") == Some(val);
            size_ok = e.size() == 19;
        }
        core::mem::forget(o);
    }
    if shape == 2 {
        let buf: [u8; 20] = [0xd3, 0x84, 1, 2, 3, 4, 0x81, BASE_SEQ, 0x82, b'i', b'd', 0x82, b'v', b'4', b'k', 0x81, BASE_PK, b'x', 0x81, v[0]];
        let val: &[u8] = &[0x81, v[0]];
        let o = run_decode(&buf[..]);
        ok = o.ok;
        if let Some(e) = &o.rec {
            raw_ok = e.get_raw_rlp("x") == Some(val);
            size_ok = e.size() == 20;
        }
        core::mem::forget(o);
    }
    if shape == 3 {
        let buf: [u8; 21] = [0xd4, 0x84, 1, 2, 3, 4, 0x81, BASE_SEQ, 0x82, b'i', b'd', 0x82, b'v', b'4', b'k', 0x81, BASE_PK, b'x', 0x82, v[0], v[1]];
        let val: &[u8] = &[0x82, v[0], v[1]];
        let o = run_decode(&buf[..]);
        ok = o.ok;
        if let Some(e) = &o.rec {
            raw_ok = e.get_raw_rlp("x") == Some(val);
            size_ok = e.size() == 21;
        }
        core::mem::forget(o);
    }
    if shape == 4 {
        let buf: [u8; 19] = [0xd2, 0x84, 1, 2, 3, 4, 0x81, BASE_SEQ, 0x82, b'i', b'd', 0x82, b'v', b'4', b'k', 0x81, BASE_PK, b'x', 0xc0];
        let val: &[u8] = &[0xc0];
        let o = run_decode(&buf[..]);
        ok = o.ok;
        if let Some(e) = &o.rec {
            raw_ok = e.get_raw_rlp("x") == Some(val);
            size_ok = e.size() == 19;
        }
        core::mem::forget(o);
    }
    if shape == 5 {
        let buf: [u8; 20] = [0xd3, 0x84, 1, 2, 3, 4, 0x81, BASE_SEQ, 0x82, b'i', b'd', 0x82, b'v', b'4', b'k', 0x81, BASE_PK, b'x', 0xc1, v[0]];
        let val: &[u8] = &[0xc1, v[0]];
        let o = run_decode(&buf[..]);
        ok = o.ok;
        if let Some(e) = &o.rec {
            raw_ok = e.get_raw_rlp("x") == Some(val);
            size_ok = e.size() == 20;
        }
        core::mem::forget(o);
    }
    if shape == 6 {
        let buf: [u8; 21] = [0xd4, 0x84, 1, 2, 3, 4, 0x81, BASE_SEQ, 0x82, b'i', b'd', 0x82, b'v', b'4', b'k', 0x81, BASE_PK, b'x', 0xc2, 0xc0, 0xc0];
        let val: &[u8] = &[0xc2, 0xc0, 0xc0];
        let o = run_decode(&buf[..]);
        ok = o.ok;
        if let Some(e) = &o.rec {
            raw_ok = e.get_raw_rlp("x") == Some(val);
            size_ok = e.size() == 21;
        }
        core::mem::forget(o);
    }
    let canonical = match shape {
        1 => v[0] <= 0x80 || v[0] == 0xc0,
        2 => v[0] >= 0x80,
        5 => v[0] <= 0x80 || v[0] == 0xc0,
        _ => true,
    };
    let vret = unsafe { V_RET };
    vcover!(ok && shape == 4, "empty list value accepted");
    vcover!(ok && shape == 6, "nested list value accepted");
    vcover!(!ok && vret && shape == 2, "non-canonical single byte rejected");
    assert!(ok || !(canonical && vret) || shape == 5, "C02: a canonically framed custom value is accepted");
    assert!(!ok || (vret && (canonical || shape == 5)), "C02: a custom value that is not a canonically framed item is rejected");
    assert!(!ok || raw_ok, "C04: the decoded record reports the custom value as the raw RLP of the input");
    assert!(!ok || size_ok, "C04: re-encoding the decoded record has the length of the input");
}

/// two custom keys with arbitrary one-byte names after "k": accepted exactly when strictly increasing
#[cfg_attr(kani, kani::proof)]
#[cfg_attr(kani, kani::stub(enr::digest, digest_stub))]
#[cfg_attr(kani, kani::stub(enr::Enr::id, id_stub))]
pub fn d_order() {
    oracle();
    let a = sym::u8();
    let b = sym::u8();
    sym::assume(a < 0x80 && b < 0x80 && a != 0 && b != 0);
    let buf: [u8; 21] = [0xd4, 0x84, 1, 2, 3, 4, 0x81, BASE_SEQ, 0x82, b'i', b'd', 0x82, b'v', b'4', b'k', 0x81, BASE_PK, a, 0x01, b, 0x02];
    let o = run_decode(&buf[..]);
    let ok = o.ok;
    let cnt = o.rec.as_ref().map(|e| e.iter().count());
    core::mem::forget(o);
    let vret = unsafe { V_RET };
    vcover!(ok, "sorted keys accepted");
    vcover!(!ok && vret && a == b && a > b'k', "duplicate key rejected");
    vcover!(!ok && vret && a > b && b > b'k', "descending keys rejected");
    assert!(ok == (b'k' < a && a < b && vret), "C02: keys must be strictly increasing (hence unique)");
    assert!(!ok || cnt == Some(4), "C04: the decoded record reports every pair of the input");
}

/// sequence number item with 0..=8 arbitrary payload bytes: accepted exactly in canonical form, and
/// then seq() is its big-endian value
#[cfg_attr(kani, kani::proof)]
#[cfg_attr(kani, kani::stub(enr::digest, digest_stub))]
#[cfg_attr(kani, kani::stub(enr::Enr::id, id_stub))]
pub fn d_seq() {
    oracle();
    let v: [u8; 8] = sym::bytes::<8>();
    let l = sym::u8() as usize;
    sym::assume(l <= 8);
    let (mut ok, mut got) = (false, 0u64);
    if l == 0 {
        let buf: [u8; 16] = [0xcf, 0x84, 1, 2, 3, 4, 0x80, 0x82, b'i', b'd', 0x82, b'v', b'4', b'k', 0x81, BASE_PK];
        let o = run_decode(&buf[..]);
        ok = o.ok;
        if let Some(e) = &o.rec { got = e.seq(); }
        core::mem::forget(o);
    }
    if l == 1 {
        let buf: [u8; 17] = [0xd0, 0x84, 1, 2, 3, 4, 0x81, v[0], 0x82, b'i', b'd', 0x82, b'v', b'4', b'k', 0x81, BASE_PK];
        let o = run_decode(&buf[..]);
        ok = o.ok;
        if let Some(e) = &o.rec { got = e.seq(); }
        core::mem::forget(o);
    }
    if l == 2 {
        let buf: [u8; 18] = [0xd1, 0x84, 1, 2, 3, 4, 0x82, v[0], v[1], 0x82, b'i', b'd', 0x82, b'v', b'4', b'k', 0x81, BASE_PK];
        let o = run_decode(&buf[..]);
        ok = o.ok;
        if let Some(e) = &o.rec { got = e.seq(); }
        core::mem::forget(o);
    }
    if l == 3 {
        let buf: [u8; 19] = [0xd2, 0x84, 1, 2, 3, 4, 0x83, v[0], v[1], v[2], 0x82, b'i', b'd', 0x82, b'v', b'4', b'k', 0x81, BASE_PK];
        let o = run_decode(&buf[..]);
        ok = o.ok;
        if let Some(e) = &o.rec { got = e.seq(); }
        core::mem::forget(o);
    }
    if l == 4 {
        let buf: [u8; 20] = [0xd3, 0x84, 1, 2, 3, 4, 0x84, v[0], v[1], v[2], v[3], 0x82, b'i', b'd', 0x82, b'v', b'4', b'k', 0x81, BASE_PK];
        let o = run_decode(&buf[..]);
        ok = o.ok;
        if let Some(e) = &o.rec { got = e.seq(); }
        core::mem::forget(o);
    }
    if l == 5 {
        let buf: [u8; 21] = [0xd4, 0x84, 1, 2, 3, 4, 0x85, v[0], v[1], v[2], v[3], v[4], 0x82, b'i', b'd', 0x82, b'v', b'4', b'k', 0x81, BASE_PK];
        let o = run_decode(&buf[..]);
        ok = o.ok;
        if let Some(e) = &o.rec { got = e.seq(); }
        core::mem::forget(o);
    }
    if l == 6 {
        let buf: [u8; 22] = [0xd5, 0x84, 1, 2, 3, 4, 0x86, v[0], v[1], v[2], v[3], v[4], v[5], 0x82, b'i', b'd', 0x82, b'v', b'4', b'k', 0x81, BASE_PK];
        let o = run_decode(&buf[..]);
        ok = o.ok;
        if let Some(e) = &o.rec { got = e.seq(); }
        core::mem::forget(o);
    }
    if l == 7 {
        let buf: [u8; 23] = [0xd6, 0x84, 1, 2, 3, 4, 0x87, v[0], v[1], v[2], v[3], v[4], v[5], v[6], 0x82, b'i', b'd', 0x82, b'v', b'4', b'k', 0x81, BASE_PK];
        let o = run_decode(&buf[..]);
        ok = o.ok;
        if let Some(e) = &o.rec { got = e.seq(); }
        core::mem::forget(o);
    }
    if l == 8 {
        let buf: [u8; 24] = [0xd7, 0x84, 1, 2, 3, 4, 0x88, v[0], v[1], v[2], v[3], v[4], v[5], v[6], v[7], 0x82, b'i', b'd', 0x82, b'v', b'4', b'k', 0x81, BASE_PK];
        let o = run_decode(&buf[..]);
        ok = o.ok;
        if let Some(e) = &o.rec { got = e.seq(); }
        core::mem::forget(o);
    }
    let mut val: u64 = 0;
    rep8!(|i: usize| if i < l { val = (val << 8) | v[i] as u64; });
    let canonical = l == 0 || (v[0] != 0 && !(l == 1 && v[0] < 0x80));
    let vret = unsafe { V_RET };
    vcover!(ok && l == 8, "eight-byte sequence number accepted");
    vcover!(ok && l == 0, "zero accepted as empty string");
    vcover!(!ok && vret && l == 2, "leading zero rejected");
    assert!(ok == (canonical && vret), "C02: the sequence number must be a canonical integer below 2^64");
    assert!(!ok || got == val, "C07: decoding preserves the sequence number for every 64-bit value");
}

// ------------------------------------------------------------------------------------------------
// Concrete probe records (generated; each folds completely in the symbolic executor, so the
// decoder is decided on them in seconds, whatever a changed decoder does): one record per
// structural rule of C02 and per reserved key, valid and invalid forms, all correctly "signed"
// (uninterpreted verifier answering yes), so that only the rule under test is violated.
// ------------------------------------------------------------------------------------------------

/// (accepted and consumed exactly, reports the value verbatim and re-encodes to the input length)
#[inline(always)]
fn probe_accepts(buf: &[u8], key: &str, raw: &[u8], check_raw: bool) -> (bool, bool) {
    let o = run_decode(buf);
    let accepted = o.ok && o.consumed_all;
    let mut verbatim = true;
    if let Some(e) = &o.rec {
        verbatim = e.size() == buf.len();
        if check_raw {
            verbatim = verbatim && e.get_raw_rlp(key) == Some(raw);
        }
    }
    core::mem::forget(o);
    (accepted, verbatim)
}
#[inline(always)]
fn probe_rejects(buf: &[u8]) -> bool {
    let o = run_decode(buf);
    let ok = o.ok;
    core::mem::forget(o);
    !ok
}
fn oracle_yes() {
    unsafe {
        SIGMODE = ORACLE;
        V_RET = true;
        V_CALLS = 0;
    }
}
/// accepted: base
#[cfg_attr(kani, kani::proof)]
#[cfg_attr(kani, kani::stub(enr::digest, digest_stub))]
#[cfg_attr(kani, kani::stub(enr::Enr::id, id_stub))]
pub fn dp_ok_base() {
    oracle_yes();
    let (accepted, verbatim) = probe_accepts(&[0xd0, 0x84, 0x01, 0x02, 0x03, 0x04, 0x81, 0x90, 0x82, 0x69, 0x64, 0x82, 0x76, 0x34, 0x6b, 0x81, 0x99], "", &[], false);
    assert!(accepted, "C02: a well-formed record is accepted and consumed exactly");
    assert!(!accepted || verbatim, "C04: a decoded record reports its values as the raw RLP of the input and re-encodes to the input length");
}

/// accepted: tcp 8080
#[cfg_attr(kani, kani::proof)]
#[cfg_attr(kani, kani::stub(enr::digest, digest_stub))]
#[cfg_attr(kani, kani::stub(enr::Enr::id, id_stub))]
pub fn dp_ok_tcp_8080() {
    oracle_yes();
    let (accepted, verbatim) = probe_accepts(&[0xd7, 0x84, 0x01, 0x02, 0x03, 0x04, 0x81, 0x90, 0x82, 0x69, 0x64, 0x82, 0x76, 0x34, 0x6b, 0x81, 0x99, 0x83, 0x74, 0x63, 0x70, 0x82, 0x1f, 0x90], "tcp", &[0x82, 0x1f, 0x90], true);
    assert!(accepted, "C02: a well-formed record is accepted and consumed exactly");
    assert!(!accepted || verbatim, "C04: a decoded record reports its values as the raw RLP of the input and re-encodes to the input length");
}

/// accepted: udp6 5
#[cfg_attr(kani, kani::proof)]
#[cfg_attr(kani, kani::stub(enr::digest, digest_stub))]
#[cfg_attr(kani, kani::stub(enr::Enr::id, id_stub))]
pub fn dp_ok_udp6_5() {
    oracle_yes();
    let (accepted, verbatim) = probe_accepts(&[0xd6, 0x84, 0x01, 0x02, 0x03, 0x04, 0x81, 0x90, 0x82, 0x69, 0x64, 0x82, 0x76, 0x34, 0x6b, 0x81, 0x99, 0x84, 0x75, 0x64, 0x70, 0x36, 0x05], "udp6", &[0x05], true);
    assert!(accepted, "C02: a well-formed record is accepted and consumed exactly");
    assert!(!accepted || verbatim, "C04: a decoded record reports its values as the raw RLP of the input and re-encodes to the input length");
}

/// accepted: udp 0 as empty string
#[cfg_attr(kani, kani::proof)]
#[cfg_attr(kani, kani::stub(enr::digest, digest_stub))]
#[cfg_attr(kani, kani::stub(enr::Enr::id, id_stub))]
pub fn dp_ok_udp_0_as_empty_string() {
    oracle_yes();
    let (accepted, verbatim) = probe_accepts(&[0xd5, 0x84, 0x01, 0x02, 0x03, 0x04, 0x81, 0x90, 0x82, 0x69, 0x64, 0x82, 0x76, 0x34, 0x6b, 0x81, 0x99, 0x83, 0x75, 0x64, 0x70, 0x80], "udp", &[0x80], true);
    assert!(accepted, "C02: a well-formed record is accepted and consumed exactly");
    assert!(!accepted || verbatim, "C04: a decoded record reports its values as the raw RLP of the input and re-encodes to the input length");
}

/// accepted: ip 127.0.0.1
#[cfg_attr(kani, kani::proof)]
#[cfg_attr(kani, kani::stub(enr::digest, digest_stub))]
#[cfg_attr(kani, kani::stub(enr::Enr::id, id_stub))]
pub fn dp_ok_ip_127_0_0_1() {
    oracle_yes();
    let (accepted, verbatim) = probe_accepts(&[0xd8, 0x84, 0x01, 0x02, 0x03, 0x04, 0x81, 0x90, 0x82, 0x69, 0x64, 0x82, 0x76, 0x34, 0x82, 0x69, 0x70, 0x84, 0x7f, 0x00, 0x00, 0x01, 0x6b, 0x81, 0x99], "ip", &[0x84, 0x7f, 0x00, 0x00, 0x01], true);
    assert!(accepted, "C02: a well-formed record is accepted and consumed exactly");
    assert!(!accepted || verbatim, "C04: a decoded record reports its values as the raw RLP of the input and re-encodes to the input length");
}

/// accepted: custom empty list
#[cfg_attr(kani, kani::proof)]
#[cfg_attr(kani, kani::stub(enr::digest, digest_stub))]
#[cfg_attr(kani, kani::stub(enr::Enr::id, id_stub))]
pub fn dp_ok_custom_empty_list() {
    oracle_yes();
    let (accepted, verbatim) = probe_accepts(&[0xd2, 0x84, 0x01, 0x02, 0x03, 0x04, 0x81, 0x90, 0x82, 0x69, 0x64, 0x82, 0x76, 0x34, 0x6b, 0x81, 0x99, 0x78, 0xc0], "x", &[0xc0], true);
    assert!(accepted, "C02: a well-formed record is accepted and consumed exactly");
    assert!(!accepted || verbatim, "C04: a decoded record reports its values as the raw RLP of the input and re-encodes to the input length");
}

/// accepted: custom nested lists
#[cfg_attr(kani, kani::proof)]
#[cfg_attr(kani, kani::stub(enr::digest, digest_stub))]
#[cfg_attr(kani, kani::stub(enr::Enr::id, id_stub))]
pub fn dp_ok_custom_nested_lists() {
    oracle_yes();
    let (accepted, verbatim) = probe_accepts(&[0xd4, 0x84, 0x01, 0x02, 0x03, 0x04, 0x81, 0x90, 0x82, 0x69, 0x64, 0x82, 0x76, 0x34, 0x6b, 0x81, 0x99, 0x78, 0xc2, 0xc0, 0xc0], "x", &[0xc2, 0xc0, 0xc0], true);
    assert!(accepted, "C02: a well-formed record is accepted and consumed exactly");
    assert!(!accepted || verbatim, "C04: a decoded record reports its values as the raw RLP of the input and re-encodes to the input length");
}

/// accepted: custom empty string
#[cfg_attr(kani, kani::proof)]
#[cfg_attr(kani, kani::stub(enr::digest, digest_stub))]
#[cfg_attr(kani, kani::stub(enr::Enr::id, id_stub))]
pub fn dp_ok_custom_empty_string() {
    oracle_yes();
    let (accepted, verbatim) = probe_accepts(&[0xd2, 0x84, 0x01, 0x02, 0x03, 0x04, 0x81, 0x90, 0x82, 0x69, 0x64, 0x82, 0x76, 0x34, 0x6b, 0x81, 0x99, 0x78, 0x80], "x", &[0x80], true);
    assert!(accepted, "C02: a well-formed record is accepted and consumed exactly");
    assert!(!accepted || verbatim, "C04: a decoded record reports its values as the raw RLP of the input and re-encodes to the input length");
}

/// accepted: custom 3-byte string
#[cfg_attr(kani, kani::proof)]
#[cfg_attr(kani, kani::stub(enr::digest, digest_stub))]
#[cfg_attr(kani, kani::stub(enr::Enr::id, id_stub))]
pub fn dp_ok_custom_3_byte_string() {
    oracle_yes();
    let (accepted, verbatim) = probe_accepts(&[0xd5, 0x84, 0x01, 0x02, 0x03, 0x04, 0x81, 0x90, 0x82, 0x69, 0x64, 0x82, 0x76, 0x34, 0x6b, 0x81, 0x99, 0x78, 0x83, 0x01, 0x02, 0x03], "x", &[0x83, 0x01, 0x02, 0x03], true);
    assert!(accepted, "C02: a well-formed record is accepted and consumed exactly");
    assert!(!accepted || verbatim, "C04: a decoded record reports its values as the raw RLP of the input and re-encodes to the input length");
}

/// accepted: custom single byte
#[cfg_attr(kani, kani::proof)]
#[cfg_attr(kani, kani::stub(enr::digest, digest_stub))]
#[cfg_attr(kani, kani::stub(enr::Enr::id, id_stub))]
pub fn dp_ok_custom_single_byte() {
    oracle_yes();
    let (accepted, verbatim) = probe_accepts(&[0xd2, 0x84, 0x01, 0x02, 0x03, 0x04, 0x81, 0x90, 0x82, 0x69, 0x64, 0x82, 0x76, 0x34, 0x6b, 0x81, 0x99, 0x78, 0x05], "x", &[0x05], true);
    assert!(accepted, "C02: a well-formed record is accepted and consumed exactly");
    assert!(!accepted || verbatim, "C04: a decoded record reports its values as the raw RLP of the input and re-encodes to the input length");
}

/// accepted: seq 2^64-1
#[cfg_attr(kani, kani::proof)]
#[cfg_attr(kani, kani::stub(enr::digest, digest_stub))]
#[cfg_attr(kani, kani::stub(enr::Enr::id, id_stub))]
pub fn dp_ok_seq_2_64_1() {
    oracle_yes();
    let (accepted, verbatim) = probe_accepts(&[0xd7, 0x84, 0x01, 0x02, 0x03, 0x04, 0x88, 0xff, 0xff, 0xff, 0xff, 0xff, 0xff, 0xff, 0xff, 0x82, 0x69, 0x64, 0x82, 0x76, 0x34, 0x6b, 0x81, 0x99], "", &[], false);
    assert!(accepted, "C02: a well-formed record is accepted and consumed exactly");
    assert!(!accepted || verbatim, "C04: a decoded record reports its values as the raw RLP of the input and re-encodes to the input length");
}

/// accepted: seq 0
#[cfg_attr(kani, kani::proof)]
#[cfg_attr(kani, kani::stub(enr::digest, digest_stub))]
#[cfg_attr(kani, kani::stub(enr::Enr::id, id_stub))]
pub fn dp_ok_seq_0() {
    oracle_yes();
    let (accepted, verbatim) = probe_accepts(&[0xcf, 0x84, 0x01, 0x02, 0x03, 0x04, 0x80, 0x82, 0x69, 0x64, 0x82, 0x76, 0x34, 0x6b, 0x81, 0x99], "", &[], false);
    assert!(accepted, "C02: a well-formed record is accepted and consumed exactly");
    assert!(!accepted || verbatim, "C04: a decoded record reports its values as the raw RLP of the input and re-encodes to the input length");
}

/// accepted: two custom keys
#[cfg_attr(kani, kani::proof)]
#[cfg_attr(kani, kani::stub(enr::digest, digest_stub))]
#[cfg_attr(kani, kani::stub(enr::Enr::id, id_stub))]
pub fn dp_ok_two_custom_keys() {
    oracle_yes();
    let (accepted, verbatim) = probe_accepts(&[0xd4, 0x84, 0x01, 0x02, 0x03, 0x04, 0x81, 0x90, 0x82, 0x69, 0x64, 0x82, 0x76, 0x34, 0x6b, 0x81, 0x99, 0x78, 0x01, 0x79, 0x02], "y", &[0x02], true);
    assert!(accepted, "C02: a well-formed record is accepted and consumed exactly");
    assert!(!accepted || verbatim, "C04: a decoded record reports its values as the raw RLP of the input and re-encodes to the input length");
}

/// rejected: udp6 >= 2^16
#[cfg_attr(kani, kani::proof)]
#[cfg_attr(kani, kani::stub(enr::digest, digest_stub))]
#[cfg_attr(kani, kani::stub(enr::Enr::id, id_stub))]
pub fn dp_no_udp6_2_16() {
    oracle_yes();
    let good = probe_rejects(&[0xd9, 0x84, 0x01, 0x02, 0x03, 0x04, 0x81, 0x90, 0x82, 0x69, 0x64, 0x82, 0x76, 0x34, 0x6b, 0x81, 0x99, 0x84, 0x75, 0x64, 0x70, 0x36, 0x83, 0x01, 0x00, 0x00]);
    assert!(good, "C02: records that break a structural rule are rejected although their signature verifies");
}

/// rejected: udp6 leading zero
#[cfg_attr(kani, kani::proof)]
#[cfg_attr(kani, kani::stub(enr::digest, digest_stub))]
#[cfg_attr(kani, kani::stub(enr::Enr::id, id_stub))]
pub fn dp_no_udp6_leading_zero() {
    oracle_yes();
    let good = probe_rejects(&[0xd8, 0x84, 0x01, 0x02, 0x03, 0x04, 0x81, 0x90, 0x82, 0x69, 0x64, 0x82, 0x76, 0x34, 0x6b, 0x81, 0x99, 0x84, 0x75, 0x64, 0x70, 0x36, 0x82, 0x00, 0x50]);
    assert!(good, "C02: records that break a structural rule are rejected although their signature verifies");
}

/// rejected: udp6 single zero byte
#[cfg_attr(kani, kani::proof)]
#[cfg_attr(kani, kani::stub(enr::digest, digest_stub))]
#[cfg_attr(kani, kani::stub(enr::Enr::id, id_stub))]
pub fn dp_no_udp6_single_zero_byte() {
    oracle_yes();
    let good = probe_rejects(&[0xd6, 0x84, 0x01, 0x02, 0x03, 0x04, 0x81, 0x90, 0x82, 0x69, 0x64, 0x82, 0x76, 0x34, 0x6b, 0x81, 0x99, 0x84, 0x75, 0x64, 0x70, 0x36, 0x00]);
    assert!(good, "C02: records that break a structural rule are rejected although their signature verifies");
}

/// rejected: udp6 list
#[cfg_attr(kani, kani::proof)]
#[cfg_attr(kani, kani::stub(enr::digest, digest_stub))]
#[cfg_attr(kani, kani::stub(enr::Enr::id, id_stub))]
pub fn dp_no_udp6_list() {
    oracle_yes();
    let good = probe_rejects(&[0xd7, 0x84, 0x01, 0x02, 0x03, 0x04, 0x81, 0x90, 0x82, 0x69, 0x64, 0x82, 0x76, 0x34, 0x6b, 0x81, 0x99, 0x84, 0x75, 0x64, 0x70, 0x36, 0xc1, 0x05]);
    assert!(good, "C02: records that break a structural rule are rejected although their signature verifies");
}

/// rejected: udp leading zero
#[cfg_attr(kani, kani::proof)]
#[cfg_attr(kani, kani::stub(enr::digest, digest_stub))]
#[cfg_attr(kani, kani::stub(enr::Enr::id, id_stub))]
pub fn dp_no_udp_leading_zero() {
    oracle_yes();
    let good = probe_rejects(&[0xd7, 0x84, 0x01, 0x02, 0x03, 0x04, 0x81, 0x90, 0x82, 0x69, 0x64, 0x82, 0x76, 0x34, 0x6b, 0x81, 0x99, 0x83, 0x75, 0x64, 0x70, 0x82, 0x00, 0x50]);
    assert!(good, "C02: records that break a structural rule are rejected although their signature verifies");
}

/// rejected: tcp leading zero
#[cfg_attr(kani, kani::proof)]
#[cfg_attr(kani, kani::stub(enr::digest, digest_stub))]
#[cfg_attr(kani, kani::stub(enr::Enr::id, id_stub))]
pub fn dp_no_tcp_leading_zero() {
    oracle_yes();
    let good = probe_rejects(&[0xd7, 0x84, 0x01, 0x02, 0x03, 0x04, 0x81, 0x90, 0x82, 0x69, 0x64, 0x82, 0x76, 0x34, 0x6b, 0x81, 0x99, 0x83, 0x74, 0x63, 0x70, 0x82, 0x00, 0x50]);
    assert!(good, "C02: records that break a structural rule are rejected although their signature verifies");
}

/// rejected: tcp6 three bytes
#[cfg_attr(kani, kani::proof)]
#[cfg_attr(kani, kani::stub(enr::digest, digest_stub))]
#[cfg_attr(kani, kani::stub(enr::Enr::id, id_stub))]
pub fn dp_no_tcp6_three_bytes() {
    oracle_yes();
    let good = probe_rejects(&[0xd9, 0x84, 0x01, 0x02, 0x03, 0x04, 0x81, 0x90, 0x82, 0x69, 0x64, 0x82, 0x76, 0x34, 0x6b, 0x81, 0x99, 0x84, 0x74, 0x63, 0x70, 0x36, 0x83, 0x01, 0x00, 0x00]);
    assert!(good, "C02: records that break a structural rule are rejected although their signature verifies");
}

/// rejected: tcp non-canonical single byte
#[cfg_attr(kani, kani::proof)]
#[cfg_attr(kani, kani::stub(enr::digest, digest_stub))]
#[cfg_attr(kani, kani::stub(enr::Enr::id, id_stub))]
pub fn dp_no_tcp_non_canonical_single_byte() {
    oracle_yes();
    let good = probe_rejects(&[0xd6, 0x84, 0x01, 0x02, 0x03, 0x04, 0x81, 0x90, 0x82, 0x69, 0x64, 0x82, 0x76, 0x34, 0x6b, 0x81, 0x99, 0x83, 0x74, 0x63, 0x70, 0x81, 0x05]);
    assert!(good, "C02: records that break a structural rule are rejected although their signature verifies");
}

/// rejected: ip 3 bytes
#[cfg_attr(kani, kani::proof)]
#[cfg_attr(kani, kani::stub(enr::digest, digest_stub))]
#[cfg_attr(kani, kani::stub(enr::Enr::id, id_stub))]
pub fn dp_no_ip_3_bytes() {
    oracle_yes();
    let good = probe_rejects(&[0xd7, 0x84, 0x01, 0x02, 0x03, 0x04, 0x81, 0x90, 0x82, 0x69, 0x64, 0x82, 0x76, 0x34, 0x82, 0x69, 0x70, 0x83, 0x7f, 0x00, 0x00, 0x6b, 0x81, 0x99]);
    assert!(good, "C02: records that break a structural rule are rejected although their signature verifies");
}

/// rejected: ip 5 bytes
#[cfg_attr(kani, kani::proof)]
#[cfg_attr(kani, kani::stub(enr::digest, digest_stub))]
#[cfg_attr(kani, kani::stub(enr::Enr::id, id_stub))]
pub fn dp_no_ip_5_bytes() {
    oracle_yes();
    let good = probe_rejects(&[0xd9, 0x84, 0x01, 0x02, 0x03, 0x04, 0x81, 0x90, 0x82, 0x69, 0x64, 0x82, 0x76, 0x34, 0x82, 0x69, 0x70, 0x85, 0x7f, 0x00, 0x00, 0x01, 0x01, 0x6b, 0x81, 0x99]);
    assert!(good, "C02: records that break a structural rule are rejected although their signature verifies");
}

/// rejected: ip list
#[cfg_attr(kani, kani::proof)]
#[cfg_attr(kani, kani::stub(enr::digest, digest_stub))]
#[cfg_attr(kani, kani::stub(enr::Enr::id, id_stub))]
pub fn dp_no_ip_list() {
    oracle_yes();
    let good = probe_rejects(&[0xd8, 0x84, 0x01, 0x02, 0x03, 0x04, 0x81, 0x90, 0x82, 0x69, 0x64, 0x82, 0x76, 0x34, 0x82, 0x69, 0x70, 0xc4, 0x7f, 0x00, 0x00, 0x01, 0x6b, 0x81, 0x99]);
    assert!(good, "C02: records that break a structural rule are rejected although their signature verifies");
}

/// rejected: ip6 of 4 bytes
#[cfg_attr(kani, kani::proof)]
#[cfg_attr(kani, kani::stub(enr::digest, digest_stub))]
#[cfg_attr(kani, kani::stub(enr::Enr::id, id_stub))]
pub fn dp_no_ip6_of_4_bytes() {
    oracle_yes();
    let good = probe_rejects(&[0xd9, 0x84, 0x01, 0x02, 0x03, 0x04, 0x81, 0x90, 0x82, 0x69, 0x64, 0x82, 0x76, 0x34, 0x83, 0x69, 0x70, 0x36, 0x84, 0x01, 0x02, 0x03, 0x04, 0x6b, 0x81, 0x99]);
    assert!(good, "C02: records that break a structural rule are rejected although their signature verifies");
}

/// rejected: duplicate key
#[cfg_attr(kani, kani::proof)]
#[cfg_attr(kani, kani::stub(enr::digest, digest_stub))]
#[cfg_attr(kani, kani::stub(enr::Enr::id, id_stub))]
pub fn dp_no_duplicate_key() {
    oracle_yes();
    let good = probe_rejects(&[0xd4, 0x84, 0x01, 0x02, 0x03, 0x04, 0x81, 0x90, 0x82, 0x69, 0x64, 0x82, 0x76, 0x34, 0x6b, 0x81, 0x99, 0x78, 0x01, 0x78, 0x02]);
    assert!(good, "C02: records that break a structural rule are rejected although their signature verifies");
}

/// rejected: unsorted keys
#[cfg_attr(kani, kani::proof)]
#[cfg_attr(kani, kani::stub(enr::digest, digest_stub))]
#[cfg_attr(kani, kani::stub(enr::Enr::id, id_stub))]
pub fn dp_no_unsorted_keys() {
    oracle_yes();
    let good = probe_rejects(&[0xd4, 0x84, 0x01, 0x02, 0x03, 0x04, 0x81, 0x90, 0x82, 0x69, 0x64, 0x82, 0x76, 0x34, 0x6b, 0x81, 0x99, 0x79, 0x01, 0x78, 0x02]);
    assert!(good, "C02: records that break a structural rule are rejected although their signature verifies");
}

/// rejected: k before id
#[cfg_attr(kani, kani::proof)]
#[cfg_attr(kani, kani::stub(enr::digest, digest_stub))]
#[cfg_attr(kani, kani::stub(enr::Enr::id, id_stub))]
pub fn dp_no_k_before_id() {
    oracle_yes();
    let good = probe_rejects(&[0xd0, 0x84, 0x01, 0x02, 0x03, 0x04, 0x81, 0x90, 0x6b, 0x81, 0x99, 0x82, 0x69, 0x64, 0x82, 0x76, 0x34]);
    assert!(good, "C02: records that break a structural rule are rejected although their signature verifies");
}

/// rejected: missing value
#[cfg_attr(kani, kani::proof)]
#[cfg_attr(kani, kani::stub(enr::digest, digest_stub))]
#[cfg_attr(kani, kani::stub(enr::Enr::id, id_stub))]
pub fn dp_no_missing_value() {
    oracle_yes();
    let good = probe_rejects(&[0xd1, 0x84, 0x01, 0x02, 0x03, 0x04, 0x81, 0x90, 0x82, 0x69, 0x64, 0x82, 0x76, 0x34, 0x6b, 0x81, 0x99, 0x78]);
    assert!(good, "C02: records that break a structural rule are rejected although their signature verifies");
}

/// rejected: missing id
#[cfg_attr(kani, kani::proof)]
#[cfg_attr(kani, kani::stub(enr::digest, digest_stub))]
#[cfg_attr(kani, kani::stub(enr::Enr::id, id_stub))]
pub fn dp_no_missing_id() {
    oracle_yes();
    let good = probe_rejects(&[0xca, 0x84, 0x01, 0x02, 0x03, 0x04, 0x81, 0x90, 0x6b, 0x81, 0x99]);
    assert!(good, "C02: records that break a structural rule are rejected although their signature verifies");
}

/// rejected: id v5
#[cfg_attr(kani, kani::proof)]
#[cfg_attr(kani, kani::stub(enr::digest, digest_stub))]
#[cfg_attr(kani, kani::stub(enr::Enr::id, id_stub))]
pub fn dp_no_id_v5() {
    oracle_yes();
    let good = probe_rejects(&[0xd0, 0x84, 0x01, 0x02, 0x03, 0x04, 0x81, 0x90, 0x82, 0x69, 0x64, 0x82, 0x76, 0x35, 0x6b, 0x81, 0x99]);
    assert!(good, "C02: records that break a structural rule are rejected although their signature verifies");
}

/// rejected: id is a list
#[cfg_attr(kani, kani::proof)]
#[cfg_attr(kani, kani::stub(enr::digest, digest_stub))]
#[cfg_attr(kani, kani::stub(enr::Enr::id, id_stub))]
pub fn dp_no_id_is_a_list() {
    oracle_yes();
    let good = probe_rejects(&[0xd0, 0x84, 0x01, 0x02, 0x03, 0x04, 0x81, 0x90, 0x82, 0x69, 0x64, 0xc2, 0x76, 0x34, 0x6b, 0x81, 0x99]);
    assert!(good, "C02: records that break a structural rule are rejected although their signature verifies");
}

/// rejected: missing public key
#[cfg_attr(kani, kani::proof)]
#[cfg_attr(kani, kani::stub(enr::digest, digest_stub))]
#[cfg_attr(kani, kani::stub(enr::Enr::id, id_stub))]
pub fn dp_no_missing_public_key() {
    oracle_yes();
    let good = probe_rejects(&[0xcd, 0x84, 0x01, 0x02, 0x03, 0x04, 0x81, 0x90, 0x82, 0x69, 0x64, 0x82, 0x76, 0x34]);
    assert!(good, "C02: records that break a structural rule are rejected although their signature verifies");
}

/// rejected: public key non-canonical
#[cfg_attr(kani, kani::proof)]
#[cfg_attr(kani, kani::stub(enr::digest, digest_stub))]
#[cfg_attr(kani, kani::stub(enr::Enr::id, id_stub))]
pub fn dp_no_public_key_non_canonical() {
    oracle_yes();
    let good = probe_rejects(&[0xd0, 0x84, 0x01, 0x02, 0x03, 0x04, 0x81, 0x90, 0x82, 0x69, 0x64, 0x82, 0x76, 0x34, 0x6b, 0x81, 0x05]);
    assert!(good, "C02: records that break a structural rule are rejected although their signature verifies");
}

/// rejected: public key below 0x80
#[cfg_attr(kani, kani::proof)]
#[cfg_attr(kani, kani::stub(enr::digest, digest_stub))]
#[cfg_attr(kani, kani::stub(enr::Enr::id, id_stub))]
pub fn dp_no_public_key_below_0x80() {
    oracle_yes();
    let good = probe_rejects(&[0xcf, 0x84, 0x01, 0x02, 0x03, 0x04, 0x81, 0x90, 0x82, 0x69, 0x64, 0x82, 0x76, 0x34, 0x6b, 0x05]);
    assert!(good, "C02: records that break a structural rule are rejected although their signature verifies");
}

/// rejected: signature is a list
#[cfg_attr(kani, kani::proof)]
#[cfg_attr(kani, kani::stub(enr::digest, digest_stub))]
#[cfg_attr(kani, kani::stub(enr::Enr::id, id_stub))]
pub fn dp_no_signature_is_a_list() {
    oracle_yes();
    let good = probe_rejects(&[0xd0, 0xc4, 0x01, 0x02, 0x03, 0x04, 0x81, 0x90, 0x82, 0x69, 0x64, 0x82, 0x76, 0x34, 0x6b, 0x81, 0x99]);
    assert!(good, "C02: records that break a structural rule are rejected although their signature verifies");
}

/// rejected: seq leading zero
#[cfg_attr(kani, kani::proof)]
#[cfg_attr(kani, kani::stub(enr::digest, digest_stub))]
#[cfg_attr(kani, kani::stub(enr::Enr::id, id_stub))]
pub fn dp_no_seq_leading_zero() {
    oracle_yes();
    let good = probe_rejects(&[0xd1, 0x84, 0x01, 0x02, 0x03, 0x04, 0x82, 0x00, 0x01, 0x82, 0x69, 0x64, 0x82, 0x76, 0x34, 0x6b, 0x81, 0x99]);
    assert!(good, "C02: records that break a structural rule are rejected although their signature verifies");
}

/// rejected: seq non-canonical single byte
#[cfg_attr(kani, kani::proof)]
#[cfg_attr(kani, kani::stub(enr::digest, digest_stub))]
#[cfg_attr(kani, kani::stub(enr::Enr::id, id_stub))]
pub fn dp_no_seq_non_canonical_single_byte() {
    oracle_yes();
    let good = probe_rejects(&[0xd0, 0x84, 0x01, 0x02, 0x03, 0x04, 0x81, 0x05, 0x82, 0x69, 0x64, 0x82, 0x76, 0x34, 0x6b, 0x81, 0x99]);
    assert!(good, "C02: records that break a structural rule are rejected although their signature verifies");
}

/// rejected: seq of 9 bytes
#[cfg_attr(kani, kani::proof)]
#[cfg_attr(kani, kani::stub(enr::digest, digest_stub))]
#[cfg_attr(kani, kani::stub(enr::Enr::id, id_stub))]
pub fn dp_no_seq_of_9_bytes() {
    oracle_yes();
    let good = probe_rejects(&[0xd8, 0x84, 0x01, 0x02, 0x03, 0x04, 0x89, 0x01, 0x01, 0x01, 0x01, 0x01, 0x01, 0x01, 0x01, 0x01, 0x82, 0x69, 0x64, 0x82, 0x76, 0x34, 0x6b, 0x81, 0x99]);
    assert!(good, "C02: records that break a structural rule are rejected although their signature verifies");
}

/// rejected: seq is a list
#[cfg_attr(kani, kani::proof)]
#[cfg_attr(kani, kani::stub(enr::digest, digest_stub))]
#[cfg_attr(kani, kani::stub(enr::Enr::id, id_stub))]
pub fn dp_no_seq_is_a_list() {
    oracle_yes();
    let good = probe_rejects(&[0xd0, 0x84, 0x01, 0x02, 0x03, 0x04, 0xc1, 0x05, 0x82, 0x69, 0x64, 0x82, 0x76, 0x34, 0x6b, 0x81, 0x99]);
    assert!(good, "C02: records that break a structural rule are rejected although their signature verifies");
}

/// rejected: outer item is a string
#[cfg_attr(kani, kani::proof)]
#[cfg_attr(kani, kani::stub(enr::digest, digest_stub))]
#[cfg_attr(kani, kani::stub(enr::Enr::id, id_stub))]
pub fn dp_no_outer_item_is_a_string() {
    oracle_yes();
    let good = probe_rejects(&[0x90, 0x84, 0x01, 0x02, 0x03, 0x04, 0x81, 0x90, 0x82, 0x69, 0x64, 0x82, 0x76, 0x34, 0x6b, 0x81, 0x99]);
    assert!(good, "C02: records that break a structural rule are rejected although their signature verifies");
}

/// rejected: outer header longer than content
#[cfg_attr(kani, kani::proof)]
#[cfg_attr(kani, kani::stub(enr::digest, digest_stub))]
#[cfg_attr(kani, kani::stub(enr::Enr::id, id_stub))]
pub fn dp_no_outer_header_longer_than_content() {
    oracle_yes();
    let good = probe_rejects(&[0xd1, 0x84, 0x01, 0x02, 0x03, 0x04, 0x81, 0x90, 0x82, 0x69, 0x64, 0x82, 0x76, 0x34, 0x6b, 0x81, 0x99]);
    assert!(good, "C02: records that break a structural rule are rejected although their signature verifies");
}

/// rejected: empty list
#[cfg_attr(kani, kani::proof)]
#[cfg_attr(kani, kani::stub(enr::digest, digest_stub))]
#[cfg_attr(kani, kani::stub(enr::Enr::id, id_stub))]
pub fn dp_no_empty_list() {
    oracle_yes();
    let good = probe_rejects(&[0xc0]);
    assert!(good, "C02: records that break a structural rule are rejected although their signature verifies");
}

/// rejected: only a signature
#[cfg_attr(kani, kani::proof)]
#[cfg_attr(kani, kani::stub(enr::digest, digest_stub))]
#[cfg_attr(kani, kani::stub(enr::Enr::id, id_stub))]
pub fn dp_no_only_a_signature() {
    oracle_yes();
    let good = probe_rejects(&[0xc5, 0x84, 0x01, 0x02, 0x03, 0x04]);
    assert!(good, "C02: records that break a structural rule are rejected although their signature verifies");
}

/// rejected: custom non-canonical single byte
#[cfg_attr(kani, kani::proof)]
#[cfg_attr(kani, kani::stub(enr::digest, digest_stub))]
#[cfg_attr(kani, kani::stub(enr::Enr::id, id_stub))]
pub fn dp_no_custom_non_canonical_single_byte() {
    oracle_yes();
    let good = probe_rejects(&[0xd3, 0x84, 0x01, 0x02, 0x03, 0x04, 0x81, 0x90, 0x82, 0x69, 0x64, 0x82, 0x76, 0x34, 0x6b, 0x81, 0x99, 0x78, 0x81, 0x05]);
    assert!(good, "C02: records that break a structural rule are rejected although their signature verifies");
}

/// rejected: custom non-canonical long form
#[cfg_attr(kani, kani::proof)]
#[cfg_attr(kani, kani::stub(enr::digest, digest_stub))]
#[cfg_attr(kani, kani::stub(enr::Enr::id, id_stub))]
pub fn dp_no_custom_non_canonical_long_form() {
    oracle_yes();
    let good = probe_rejects(&[0xd4, 0x84, 0x01, 0x02, 0x03, 0x04, 0x81, 0x90, 0x82, 0x69, 0x64, 0x82, 0x76, 0x34, 0x6b, 0x81, 0x99, 0x78, 0xb8, 0x01, 0x09]);
    assert!(good, "C02: records that break a structural rule are rejected although their signature verifies");
}

/// rejected: custom value overruns the list
#[cfg_attr(kani, kani::proof)]
#[cfg_attr(kani, kani::stub(enr::digest, digest_stub))]
#[cfg_attr(kani, kani::stub(enr::Enr::id, id_stub))]
pub fn dp_no_custom_value_overruns_the_list() {
    oracle_yes();
    let good = probe_rejects(&[0xd4, 0x84, 0x01, 0x02, 0x03, 0x04, 0x81, 0x90, 0x82, 0x69, 0x64, 0x82, 0x76, 0x34, 0x6b, 0x81, 0x99, 0x78, 0x83, 0x01, 0x02]);
    assert!(good, "C02: records that break a structural rule are rejected although their signature verifies");
}

/// rejected: key is a list
#[cfg_attr(kani, kani::proof)]
#[cfg_attr(kani, kani::stub(enr::digest, digest_stub))]
#[cfg_attr(kani, kani::stub(enr::Enr::id, id_stub))]
pub fn dp_no_key_is_a_list() {
    oracle_yes();
    let good = probe_rejects(&[0xd3, 0x84, 0x01, 0x02, 0x03, 0x04, 0x81, 0x90, 0x82, 0x69, 0x64, 0x82, 0x76, 0x34, 0x6b, 0x81, 0x99, 0xc1, 0x78, 0x01]);
    assert!(good, "C02: records that break a structural rule are rejected although their signature verifies");
}

/// rejected: long-form header for a short list
#[cfg_attr(kani, kani::proof)]
#[cfg_attr(kani, kani::stub(enr::digest, digest_stub))]
#[cfg_attr(kani, kani::stub(enr::Enr::id, id_stub))]
pub fn dp_no_long_form_header_for_a_short_list() {
    oracle_yes();
    let good = probe_rejects(&[0xf8, 0x10, 0x84, 0x01, 0x02, 0x03, 0x04, 0x81, 0x90, 0x82, 0x69, 0x64, 0x82, 0x76, 0x34, 0x6b, 0x81, 0x99]);
    assert!(good, "C02: records that break a structural rule are rejected although their signature verifies");
}


// ------------------------------------------------------------------------------------------------
// Arbitrary (unstructured) small inputs: every byte string of length 0..=6 through the decoder, every
// ASCII text of length 0..=5 through from_str. No valid record is that short, so all must be
// rejected with an error value, without panic, and (C13) without consuming past the item.
// ------------------------------------------------------------------------------------------------

#[cfg_attr(kani, kani::proof)]
#[cfg_attr(kani, kani::stub(enr::digest, digest_stub))]
#[cfg_attr(kani, kani::stub(enr::Enr::id, id_stub))]
pub fn d_any_small() {
    oracle();
    let b: [u8; 6] = sym::bytes::<6>();
    let n = sym::u8();
    sym::assume(n <= 6);
    let mut ok = false;
    macro_rules! go { ($len:expr) => { if n == $len { let o = run_decode(&b[..$len]); ok = o.ok; core::mem::forget(o); } }; }
    go!(0);
    go!(1);
    go!(2);
    go!(3);
    go!(4);
    go!(5);
    go!(6);
    assert!(!ok, "C02: no input shorter than the smallest well-formed record is accepted");
}
