//! Minimal serde drivers for the harnesses: a string deserializer that behaves like a
//! self-describing format for newtype structs (serde's own `StrDeserializer` does not), a
//! serializer that captures the emitted string, and an error type that does not format messages.
use serde::de::{self, Visitor};
use serde::ser;
use std::fmt;

#[derive(Debug, Clone, PartialEq, Eq)]
pub struct DErr;
impl fmt::Display for DErr {
    fn fmt(&self, _f: &mut fmt::Formatter<'_>) -> fmt::Result {
        Ok(())
    }
}
impl std::error::Error for DErr {}
impl de::Error for DErr {
    fn custom<T: fmt::Display>(_msg: T) -> Self {
        DErr
    }
}
impl ser::Error for DErr {
    fn custom<T: fmt::Display>(_msg: T) -> Self {
        DErr
    }
}

/// Deserializer over one borrowed string.
pub struct StrDe<'de>(pub &'de str);
impl<'de> de::Deserializer<'de> for StrDe<'de> {
    type Error = DErr;
    fn deserialize_any<V: Visitor<'de>>(self, v: V) -> Result<V::Value, DErr> {
        v.visit_borrowed_str(self.0)
    }
    fn deserialize_newtype_struct<V: Visitor<'de>>(
        self,
        _name: &'static str,
        v: V,
    ) -> Result<V::Value, DErr> {
        v.visit_newtype_struct(self)
    }
    serde::forward_to_deserialize_any! {
        bool i8 i16 i32 i64 i128 u8 u16 u32 u64 u128 f32 f64 char str string
        bytes byte_buf option unit unit_struct seq tuple
        tuple_struct map struct enum identifier ignored_any
    }
}

/// Deserializer that hands the visitor an owned `String` (what serde_json does for escaped text).
pub struct StringDe(pub String);
impl<'de> de::Deserializer<'de> for StringDe {
    type Error = DErr;
    fn deserialize_any<V: Visitor<'de>>(self, v: V) -> Result<V::Value, DErr> {
        v.visit_string(self.0)
    }
    fn deserialize_newtype_struct<V: Visitor<'de>>(
        self,
        _name: &'static str,
        v: V,
    ) -> Result<V::Value, DErr> {
        v.visit_newtype_struct(self)
    }
    serde::forward_to_deserialize_any! {
        bool i8 i16 i32 i64 i128 u8 u16 u32 u64 u128 f32 f64 char str string
        bytes byte_buf option unit unit_struct seq tuple
        tuple_struct map struct enum identifier ignored_any
    }
}

/// Serializer that accepts exactly one `serialize_str` (possibly through newtype wrappers) and
/// returns the string; everything else is an error.
pub struct CapSer;
macro_rules! nope {
    ($($f:ident($t:ty)),*) => { $( fn $f(self, _v: $t) -> Result<String, DErr> { Err(DErr) } )* };
}
impl ser::Serializer for CapSer {
    type Ok = String;
    type Error = DErr;
    type SerializeSeq = ser::Impossible<String, DErr>;
    type SerializeTuple = ser::Impossible<String, DErr>;
    type SerializeTupleStruct = ser::Impossible<String, DErr>;
    type SerializeTupleVariant = ser::Impossible<String, DErr>;
    type SerializeMap = ser::Impossible<String, DErr>;
    type SerializeStruct = ser::Impossible<String, DErr>;
    type SerializeStructVariant = ser::Impossible<String, DErr>;
    fn serialize_str(self, v: &str) -> Result<String, DErr> {
        Ok(String::from(v))
    }
    fn serialize_newtype_struct<T: ?Sized + ser::Serialize>(
        self,
        _name: &'static str,
        value: &T,
    ) -> Result<String, DErr> {
        value.serialize(self)
    }
    nope!(serialize_bool(bool), serialize_i8(i8), serialize_i16(i16), serialize_i32(i32),
          serialize_i64(i64), serialize_u8(u8), serialize_u16(u16), serialize_u32(u32),
          serialize_u64(u64), serialize_f32(f32), serialize_f64(f64), serialize_char(char),
          serialize_bytes(&[u8]), serialize_unit_struct(&'static str));
    fn serialize_none(self) -> Result<String, DErr> {
        Err(DErr)
    }
    fn serialize_some<T: ?Sized + ser::Serialize>(self, _v: &T) -> Result<String, DErr> {
        Err(DErr)
    }
    fn serialize_unit(self) -> Result<String, DErr> {
        Err(DErr)
    }
    fn serialize_unit_variant(self, _n: &'static str, _i: u32, _v: &'static str) -> Result<String, DErr> {
        Err(DErr)
    }
    fn serialize_newtype_variant<T: ?Sized + ser::Serialize>(
        self,
        _n: &'static str,
        _i: u32,
        _v: &'static str,
        _value: &T,
    ) -> Result<String, DErr> {
        Err(DErr)
    }
    fn serialize_seq(self, _len: Option<usize>) -> Result<Self::SerializeSeq, DErr> {
        Err(DErr)
    }
    fn serialize_tuple(self, _len: usize) -> Result<Self::SerializeTuple, DErr> {
        Err(DErr)
    }
    fn serialize_tuple_struct(self, _n: &'static str, _l: usize) -> Result<Self::SerializeTupleStruct, DErr> {
        Err(DErr)
    }
    fn serialize_tuple_variant(
        self,
        _n: &'static str,
        _i: u32,
        _v: &'static str,
        _l: usize,
    ) -> Result<Self::SerializeTupleVariant, DErr> {
        Err(DErr)
    }
    fn serialize_map(self, _len: Option<usize>) -> Result<Self::SerializeMap, DErr> {
        Err(DErr)
    }
    fn serialize_struct(self, _n: &'static str, _l: usize) -> Result<Self::SerializeStruct, DErr> {
        Err(DErr)
    }
    fn serialize_struct_variant(
        self,
        _n: &'static str,
        _i: u32,
        _v: &'static str,
        _l: usize,
    ) -> Result<Self::SerializeStructVariant, DErr> {
        Err(DErr)
    }
}
