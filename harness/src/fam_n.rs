//! Family N: the `NodeId` value type (property C16). No record involved; runs on the unscaled
//! source. Every assertion message starts with the property id it belongs to.
use crate::serde_drv::{CapSer, StrDe, StringDe};
use crate::sym;
use enr::NodeId;
use serde::{Deserialize, Serialize};

/// parse: any slice of length 0..=64. Ok iff len == 32, and then the id holds exactly the bytes.
#[cfg_attr(kani, kani::proof)]
pub fn n_parse() {
    let buf: [u8; 64] = sym::bytes::<64>();
    let len = sym::usize();
    sym::assume(len <= 64);
    let r = NodeId::parse(&buf[..len]);
    let ok = r.is_ok();
    vcover!(ok, "parse Ok");
    vcover!(!ok && len < 32, "parse Err short");
    vcover!(!ok && len > 32, "parse Err long");
    assert!(ok == (len == 32), "C16: parse succeeds exactly for 32-byte slices");
    if let Ok(id) = r {
        let raw = id.raw();
        let mut same = true;
        let mut i = 0;
        while i < 32 {
            same &= raw[i] == buf[i];
            i += 1;
        }
        assert!(same, "C16: parsed id holds exactly the input bytes");
    }
}

/// new / raw / as_ref / From<[u8;32]> / PartialEq<[u8;32]> / Eq / Clone for every 32-byte value.
#[cfg_attr(kani, kani::proof)]
pub fn n_conv() {
    let a: [u8; 32] = sym::bytes::<32>();
    let b: [u8; 32] = sym::bytes::<32>();
    let ia = NodeId::new(&a);
    let ib = NodeId::new(&b);
    assert!(ia.raw() == a, "C16: new/raw returns exactly the bytes");
    let r: &[u8] = ia.as_ref();
    assert!(r.len() == 32, "C16: as_ref is 32 bytes");
    assert!(r == &a[..], "C16: as_ref returns exactly the bytes");
    let f = NodeId::from(a);
    assert!(f.raw() == a, "C16: From<[u8;32]> keeps the bytes");
    assert!(ia == a, "C16: NodeId == its raw bytes");
    assert!((ia == b) == (a == b), "C16: PartialEq<[u8;32]> is byte equality");
    assert!((ia == ib) == (a == b), "C16: Eq is byte equality");
    let c = ia;
    assert!(c == ia && c.raw() == a, "C16: copy equals original");
    let p = NodeId::parse(&a);
    assert!(p == Ok(ia), "C16: parse of 32 bytes succeeds and equals new");
    vcover!(a != b, "distinct ids");
    vcover!(a == b, "equal ids");
}

fn hexval(c: u8) -> Option<u8> {
    match c {
        b'0'..=b'9' => Some(c - b'0'),
        b'a'..=b'f' => Some(c - b'a' + 10),
        b'A'..=b'F' => Some(c - b'A' + 10),
        _ => None,
    }
}

/// reference acceptor written from the property text: optional "0x", then exactly 64 hex digits
fn ref_hex32(s: &[u8]) -> Option<[u8; 32]> {
    let body = if s.len() >= 2 && s[0] == b'0' && s[1] == b'x' { &s[2..] } else { s };
    if body.len() != 64 {
        return None;
    }
    let mut out = [0u8; 32];
    let mut ok = true;
    let mut i = 0;
    while i < 32 {
        match (hexval(body[2 * i]), hexval(body[2 * i + 1])) {
            (Some(h), Some(l)) => out[i] = (h << 4) | l,
            _ => ok = false,
        }
        i += 1;
    }
    if ok {
        Some(out)
    } else {
        None
    }
}

pub const DE_MAX: usize = 70;

fn any_ascii(len_max: usize) -> ([u8; DE_MAX], usize) {
    let buf: [u8; DE_MAX] = sym::bytes::<DE_MAX>();
    let len = sym::usize();
    sym::assume(len <= len_max);
    let mut i = 0;
    while i < DE_MAX {
        sym::assume(buf[i] < 0x80);
        i += 1;
    }
    (buf, len)
}

fn de_check(got: Result<NodeId, crate::serde_drv::DErr>, want: Option<[u8; 32]>) {
    let ok = got.is_ok();
    vcover!(ok, "deserialize Ok");
    vcover!(!ok, "deserialize Err");
    assert!(ok == want.is_some(), "C16: deserialisation accepts exactly 64 hex digits with optional 0x");
    if let (Ok(id), Some(w)) = (got, want) {
        assert!(id.raw() == w, "C16: deserialised id has the value the digits denote");
    }
}

/// Deserialize (borrowed str): every ASCII string of length 0..=70.
#[cfg_attr(kani, kani::proof)]
pub fn n_de_borrowed() {
    let (buf, len) = any_ascii(DE_MAX);
    let s = unsafe { core::str::from_utf8_unchecked(&buf[..len]) };
    let got = NodeId::deserialize(StrDe(s));
    de_check(got, ref_hex32(&buf[..len]));
}

/// Deserialize (owned string, the serde_json escaped-text path).
#[cfg_attr(kani, kani::proof)]
pub fn n_de_owned() {
    let (buf, len) = any_ascii(DE_MAX);
    let s = unsafe { core::str::from_utf8_unchecked(&buf[..len]) };
    let got = NodeId::deserialize(StringDe(String::from(s)));
    de_check(got, ref_hex32(&buf[..len]));
}

fn lower_hex(n: u8) -> u8 {
    if n < 10 {
        b'0' + n
    } else {
        b'a' + (n - 10)
    }
}

/// Serialize: "0x" + 64 lowercase hex digits, and it deserialises to the same id.
#[cfg_attr(kani, kani::proof)]
pub fn n_ser() {
    let a: [u8; 32] = sym::bytes::<32>();
    let id = NodeId::new(&a);
    let r = id.serialize(CapSer);
    assert!(r.is_ok(), "C16: serialisation yields one string");
    let s = match r {
        Ok(s) => s,
        Err(_) => return,
    };
    let b = s.as_bytes();
    assert!(b.len() == 66, "C16: JSON form is 66 characters");
    if b.len() == 66 {
        let mut good = b[0] == b'0' && b[1] == b'x';
        let mut i = 0;
        while i < 32 {
            good &= b[2 + 2 * i] == lower_hex(a[i] >> 4) && b[3 + 2 * i] == lower_hex(a[i] & 15);
            i += 1;
        }
        assert!(good, "C16: JSON form is 0x + lowercase hex of the bytes");
    }
    core::mem::forget(s);
}

/// Debug = full 0x-hex; Display = 0x + first two bytes + ".." + last two bytes.
#[cfg_attr(kani, kani::proof)]
pub fn n_fmt() {
    let a: [u8; 32] = sym::bytes::<32>();
    let id = NodeId::new(&a);
    let d = format!("{:?}", id);
    let b = d.as_bytes();
    assert!(b.len() == 66, "C16: Debug is 66 characters");
    if b.len() == 66 {
        let mut good = b[0] == b'0' && b[1] == b'x';
        let mut i = 0;
        while i < 32 {
            good &= b[2 + 2 * i] == lower_hex(a[i] >> 4) && b[3 + 2 * i] == lower_hex(a[i] & 15);
            i += 1;
        }
        assert!(good, "C16: Debug is 0x + lowercase hex of the bytes");
    }
    let p = format!("{}", id);
    let q = p.as_bytes();
    assert!(q.len() == 12, "C16: Display is 12 characters");
    if q.len() == 12 {
        let want = [
            b'0', b'x',
            lower_hex(a[0] >> 4), lower_hex(a[0] & 15), lower_hex(a[1] >> 4), lower_hex(a[1] & 15),
            b'.', b'.',
            lower_hex(a[30] >> 4), lower_hex(a[30] & 15), lower_hex(a[31] >> 4), lower_hex(a[31] & 15),
        ];
        assert!(q == &want[..], "C16: Display is 0x + first two bytes .. last two bytes");
    }
    core::mem::forget(d);
    core::mem::forget(p);
}

/// Prefix handling of the deserialiser in isolation: 0, 2 or 4 arbitrary ASCII characters followed
/// by 64 fixed hex digits (so the digits fold and only the prefix logic is symbolic). Accepted
/// exactly when there is no prefix or the prefix is "0x"; never with four extra characters.
#[cfg_attr(kani, kani::proof)]
pub fn n_de_prefix() {
    let p: [u8; 4] = sym::bytes::<4>();
    sym::assume(p[0] < 0x80 && p[1] < 0x80 && p[2] < 0x80 && p[3] < 0x80);
    let mut buf = [b'a'; 68];
    buf[0] = p[0];
    buf[1] = p[1];
    buf[2] = p[2];
    buf[3] = p[3];
    buf[4] = b'0';
    buf[5] = b'1';
    buf[67] = b'F';
    let k = sym::u8();
    sym::assume(k <= 2);
    // concrete slice lengths selected by a symbolic value (a symbolic slice length defeats folding)
    let s: &[u8] = if k == 0 { &buf[4..] } else if k == 1 { &buf[2..] } else { &buf[..] };
    let st = unsafe { core::str::from_utf8_unchecked(s) };
    let got = NodeId::deserialize(StrDe(st));
    let want = ref_hex32(s);
    let ok = got.is_ok();
    vcover!(ok && k == 1, "accepted with 0x prefix");
    vcover!(ok && k == 0, "accepted without prefix");
    vcover!(!ok && k == 1, "rejected two-character prefix");
    vcover!(!ok && k == 2, "rejected four-character prefix");
    assert!(ok == want.is_some(), "C16: deserialisation accepts exactly 64 hex digits with optional 0x");
    assert!(k != 2 || !ok, "C16: a repeated or longer prefix is rejected");
    if let (Ok(id), Some(w)) = (got, want) {
        assert!(id.raw() == w, "C16: deserialised id has the value the digits denote");
    }
}

/// Concrete probe strings (fold completely, so they stay decidable even when a changed
/// implementation uses string searching that the bounded harnesses above cannot carry):
/// 64 digits, 0x + 64 digits accepted; repeated prefix, upper-case prefix, leading/trailing blank,
/// 63 and 65 digits rejected.
#[cfg_attr(kani, kani::proof)]
pub fn n_de_probes() {
    macro_rules! d { () => { "9a5f5064e020de899ddbc5182d8f5a6a630c095d2c42c4cb23e91a3b3280a8b4" }; }
    let cases: [(&str, bool); 8] = [
        (d!(), true),
        (concat!("0x", d!()), true),
        (concat!("0x0x", d!()), false),
        (concat!("0X", d!()), false),
        (concat!(" 0x", d!()), false),
        (concat!("0x", d!(), " "), false),
        (concat!(d!(), "a"), false),
        (concat!("x", d!()), false),
    ];
    let mut all = true;
    let mut i = 0;
    while i < 8 {
        let got = NodeId::deserialize(StrDe(cases[i].0)).is_ok();
        all &= got == cases[i].1;
        i += 1;
    }
    assert!(all, "C16: deserialisation accepts exactly 64 hex digits with optional 0x");
}
