//! Family A: accessors on records assembled from arbitrary parts (`verif_from_parts`): no signing,
//! no verification. Properties C14 (typed accessors agree with the raw content) and C15 (equality,
//! hashing, content comparison). Values are restricted to what the library can hand out where the
//! property speaks about stored values: every raw value is exactly one RLP item (established for
//! every Ok step by family U, C05).
use crate::mkey::*;
use crate::refmodel::*;
use crate::sym;
use crate::verif_types::BTreeMap;
use bytes::Bytes;
use enr::{Enr, NodeId};
use std::net::{Ipv4Addr, Ipv6Addr, SocketAddrV4, SocketAddrV6};

type Map = BTreeMap<Vec<u8>, Bytes>;

fn rec(m: Map) -> Enr<MKey> {
    Enr::<MKey>::verif_from_parts(1, NodeId::new(&[0u8; 32]), m, Vec::new())
}

/// symbolic raw value of at most N bytes that is exactly one RLP item
fn any_item<const N: usize>() -> ([u8; N], usize) {
    let raw: [u8; N] = sym::bytes::<N>();
    let n = sym::usize();
    sym::assume(n <= N);
    sym::assume(ref_one_item_loose(&raw[..n]));
    (raw, n)
}

/// typed port getter == reference decode of the raw value, for every one-item raw value of at
/// most 4 bytes (all 65536 ports, every malformed / ill-typed form)
#[inline(always)]
fn port_body<F: Fn(&Enr<MKey>) -> Option<u16>>(key: &[u8], getter: F) {
    let (raw, n) = any_item::<4>();
    let mut m: Map = BTreeMap::new();
    m.insert(key.to_vec(), mk_bytes(&raw[..n]));
    let e = rec(m);
    let got = getter(&e);
    let rawback_ok = e.get_raw_rlp(key) == Some(&raw[..n]);
    let want = ref_port(&raw[..n]);
    vcover!(want.is_some() && n == 3, "two-byte port");
    vcover!(want.is_some() && n == 1, "one-byte port");
    vcover!(want.is_none(), "not a port");
    core::mem::forget(e);
    assert!(got == want, "C14: port getter reports exactly the canonical integer stored");
    assert!(rawback_ok, "C14: get_raw_rlp returns the stored bytes");
}
#[cfg_attr(kani, kani::proof)]
pub fn a14_tcp() {
    port_body(b"tcp", |e| e.tcp4())
}
#[cfg_attr(kani, kani::proof)]
pub fn a14_tcp6() {
    port_body(b"tcp6", |e| e.tcp6())
}
#[cfg_attr(kani, kani::proof)]
pub fn a14_udp() {
    port_body(b"udp", |e| e.udp4())
}
#[cfg_attr(kani, kani::proof)]
pub fn a14_udp6() {
    port_body(b"udp6", |e| e.udp6())
}

/// a port getter reads only its own key
#[cfg_attr(kani, kani::proof)]
#[cfg_attr(kani, kani::stub(<[u8]>::to_vec, to_vec_stub))]
pub fn a14_port_isolation() {
    let (raw, n) = any_item::<4>();
    let mut m: Map = BTreeMap::new();
    m.insert(b"udp".to_vec(), mk_bytes(&raw[..n]));
    let e = rec(m);
    let o = (e.tcp4(), e.tcp6(), e.udp6(), e.ip4(), e.ip6());
    let u = e.udp4();
    core::mem::forget(e);
    assert!(o.0.is_none() && o.1.is_none() && o.2.is_none() && o.3.is_none() && o.4.is_none(),
            "C14: getters of absent keys report None");
    assert!(u == ref_port(&raw[..n]), "C14: port getter reports exactly the canonical integer stored");
}

#[cfg_attr(kani, kani::proof)]
#[cfg_attr(kani, kani::stub(<[u8]>::to_vec, to_vec_stub))]
pub fn a14_ip4() {
    let (raw, n) = any_item::<6>();
    let mut m: Map = BTreeMap::new();
    m.insert(b"ip".to_vec(), mk_bytes(&raw[..n]));
    let e = rec(m);
    let got = e.ip4();
    let want = ref_ip4(&raw[..n]).map(Ipv4Addr::from);
    vcover!(want.is_some(), "valid ip");
    vcover!(want.is_none(), "invalid ip");
    core::mem::forget(e);
    assert!(got == want, "C14: ip4 reports exactly the 4-byte string stored");
}

#[cfg_attr(kani, kani::proof)]
#[cfg_attr(kani, kani::stub(<[u8]>::to_vec, to_vec_stub))]
pub fn a14_ip6() {
    let (raw, n) = any_item::<18>();
    let mut m: Map = BTreeMap::new();
    m.insert(b"ip6".to_vec(), mk_bytes(&raw[..n]));
    let e = rec(m);
    let got = e.ip6();
    let want = ref_ip6(&raw[..n]).map(Ipv6Addr::from);
    vcover!(want.is_some(), "valid ip6");
    vcover!(want.is_none(), "invalid ip6");
    core::mem::forget(e);
    assert!(got == want, "C14: ip6 reports exactly the 16-byte string stored");
}

/// id(): Some(text) exactly when the raw value is a byte string (ASCII payloads of <= 3 bytes)
#[cfg_attr(kani, kani::proof)]
#[cfg_attr(kani, kani::stub(std::string::String::from_utf8_lossy, lossy_stub))]
#[cfg_attr(kani, kani::stub(<[u8]>::to_vec, to_vec_stub))]
pub fn a14_id() {
    let (raw, n) = any_item::<4>();
    let mut m: Map = BTreeMap::new();
    m.insert(b"id".to_vec(), mk_bytes(&raw[..n]));
    let e = rec(m);
    let got = e.id();
    let want: Option<&[u8]> = match ref_item(&raw[..n]) {
        Some((false, hl, pl)) => Some(&raw[hl..hl + pl]),
        _ => None,
    };
    // lossy UTF-8 conversion is exact only for valid UTF-8: payloads are restricted to ASCII
    if let Some(w) = want {
        sym::assume((w.len() < 1 || w[0] < 0x80) && (w.len() < 2 || w[1] < 0x80) && (w.len() < 3 || w[2] < 0x80));
    }
    vcover!(want.is_some() && n == 3, "two-byte id");
    vcover!(want.is_none(), "id is a list or non-canonical");
    let same = match (&got, want) {
        (Some(s), Some(w)) => s.as_bytes() == w,
        (None, None) => true,
        _ => false,
    };
    core::mem::forget(got);
    core::mem::forget(e);
    assert!(same, "C14: id reports exactly the string stored");
}

/// get_decodable::<u64> and get_raw_rlp under a custom key
#[cfg_attr(kani, kani::proof)]
pub fn a14_decodable() {
    let (raw, n) = any_item::<10>();
    let mut m: Map = BTreeMap::new();
    m.insert(b"x".to_vec(), mk_bytes(&raw[..n]));
    let e = rec(m);
    let got: Option<Option<u64>> = e.get_decodable::<u64>("x").map(|r| r.ok());
    let absent = e.get_decodable::<u64>("y").is_none() && e.get_raw_rlp("y").is_none();
    let rawback_ok = e.get_raw_rlp("x") == Some(&raw[..n]);
    let want = ref_u64_item(&raw[..n]).map(|(v, _)| v);
    vcover!(want.is_some() && n == 9, "eight-byte integer");
    vcover!(want.is_none(), "not an integer");
    core::mem::forget(e);
    assert!(got == Some(want), "C14: get_decodable reports exactly the canonical integer stored");
    assert!(rawback_ok, "C14: get_raw_rlp returns the stored bytes");
    assert!(absent, "C14: absent keys report None");
}

/// socket getters and reachability flags are exactly the combination of the ip and port getters,
/// for all 64 presence combinations of the six keys and arbitrary (valid or invalid) raw values
#[inline(always)]
fn sockets_body(p: [u8; 6]) {
    // six slots in key order; a key is "absent" when its last character is replaced by a
    // neighbouring one that keeps the order (ip->io, ip6->ip5, tcp->tco, tcp6->tcp5, udp->udo,
    // udp6->udp5): all 64 presence combinations, fixed map layout
    let ip4v: [u8; 5] = sym::bytes::<5>();
    let mut ip6v = [0u8; 17];
    ip6v[0] = sym::u8();
    ip6v[1] = sym::u8();
    ip6v[16] = sym::u8();
    let tv: [u8; 3] = sym::bytes::<3>();
    let t6v: [u8; 2] = sym::bytes::<2>();
    let uv: [u8; 3] = sym::bytes::<3>();
    let u6v: [u8; 1] = sym::bytes::<1>();
    let pick = |present: u8, real: u8, other: u8| if present & 1 == 1 { real } else { other };
    let mut sm = SortedMap::new();
    sm.push(&[b'i', pick(p[0], b'p', b'o')], mk_bytes(&ip4v));
    sm.push(&[b'i', b'p', pick(p[1], b'6', b'5')], mk_bytes(&ip6v));
    sm.push(&[b't', b'c', pick(p[2], b'p', b'o')], mk_bytes(&tv));
    sm.push(&[b't', b'c', b'p', pick(p[3], b'6', b'5')], mk_bytes(&t6v));
    sm.push(&[b'u', b'd', pick(p[4], b'p', b'o')], mk_bytes(&uv));
    sm.push(&[b'u', b'd', b'p', pick(p[5], b'6', b'5')], mk_bytes(&u6v));
    let e = rec(sm.done());
    let (i4, i6) = (e.ip4(), e.ip6());
    let (t4, t6, u4, u6) = (e.tcp4(), e.tcp6(), e.udp4(), e.udp6());
    let su4 = e.udp4_socket();
    let su6 = e.udp6_socket();
    let st4 = e.tcp4_socket();
    let st6 = e.tcp6_socket();
    let ur = e.is_udp_reachable();
    let tr = e.is_tcp_reachable();
    core::mem::forget(e);
    let wu4 = match (i4, u4) { (Some(i), Some(p)) => Some(SocketAddrV4::new(i, p)), _ => None };
    let wt4 = match (i4, t4) { (Some(i), Some(p)) => Some(SocketAddrV4::new(i, p)), _ => None };
    let wu6 = match (i6, u6) { (Some(i), Some(p)) => Some(SocketAddrV6::new(i, p, 0, 0)), _ => None };
    let wt6 = match (i6, t6) { (Some(i), Some(p)) => Some(SocketAddrV6::new(i, p, 0, 0)), _ => None };
    // presence: an absent key reports None whatever is stored under the placeholder
    let absent_ok = (p[0] & 1 == 1 || i4.is_none()) && (p[1] & 1 == 1 || i6.is_none())
        && (p[2] & 1 == 1 || t4.is_none()) && (p[3] & 1 == 1 || t6.is_none())
        && (p[4] & 1 == 1 || u4.is_none()) && (p[5] & 1 == 1 || u6.is_none());
    vcover!(wu4.is_some() && wu6.is_some(), "both udp sockets");
    vcover!(i4.is_some() && i6.is_some() && !ur, "addresses without usable udp ports");
    vcover!(!ur && !tr, "unreachable");
    vcover!(tr && !ur, "tcp only");
    assert!(absent_ok, "C14: getters of absent keys report None");
    assert!(su4 == wu4, "C14: udp4_socket is ip4 + udp4");
    assert!(st4 == wt4, "C14: tcp4_socket is ip4 + tcp4");
    assert!(su6 == wu6, "C14: udp6_socket is ip6 + udp6");
    assert!(st6 == wt6, "C14: tcp6_socket is ip6 + tcp6");
    assert!(ur == (wu4.is_some() || wu6.is_some()), "C14: udp reachability is either udp socket");
    assert!(tr == (wt4.is_some() || wt6.is_some()), "C14: tcp reachability is either tcp socket");
}

/// all 64 presence combinations at once (symbolic key bytes: thorough tier)
#[cfg_attr(kani, kani::proof)]
#[cfg_attr(kani, kani::stub(<[u8]>::to_vec, to_vec_stub))]
pub fn a14_sockets() {
    sockets_body(sym::bytes::<6>())
}
/// concrete presence sets (quick tier): all six keys, IPv4 family only, IPv6 family only,
/// addresses without ports, ports without addresses, crossed families
#[cfg_attr(kani, kani::proof)]
#[cfg_attr(kani, kani::stub(<[u8]>::to_vec, to_vec_stub))]
pub fn a14_sock_all() {
    sockets_body([1, 1, 1, 1, 1, 1])
}
#[cfg_attr(kani, kani::proof)]
#[cfg_attr(kani, kani::stub(<[u8]>::to_vec, to_vec_stub))]
pub fn a14_sock_v4() {
    sockets_body([1, 0, 1, 0, 1, 0])
}
#[cfg_attr(kani, kani::proof)]
#[cfg_attr(kani, kani::stub(<[u8]>::to_vec, to_vec_stub))]
pub fn a14_sock_v6() {
    sockets_body([0, 1, 0, 1, 0, 1])
}
#[cfg_attr(kani, kani::proof)]
#[cfg_attr(kani, kani::stub(<[u8]>::to_vec, to_vec_stub))]
pub fn a14_sock_ips() {
    sockets_body([1, 1, 0, 0, 0, 0])
}
#[cfg_attr(kani, kani::proof)]
#[cfg_attr(kani, kani::stub(<[u8]>::to_vec, to_vec_stub))]
pub fn a14_sock_ports() {
    sockets_body([0, 0, 1, 1, 1, 1])
}
#[cfg_attr(kani, kani::proof)]
#[cfg_attr(kani, kani::stub(<[u8]>::to_vec, to_vec_stub))]
pub fn a14_sock_cross() {
    sockets_body([1, 0, 0, 1, 0, 1])
}

// ------------------------------------------------------------------------------------------------
// C15
// ------------------------------------------------------------------------------------------------

/// folds every byte written to it (count, xor, wrapping sum, position-weighted sum): identical
/// write sequences give identical folds, so "equal records => equal folds" never alarms falsely
pub struct RecHasher {
    pub n: usize,
    pub x: u8,
    pub s: u8,
    pub w: u32,
}
impl RecHasher {
    pub fn new() -> Self {
        RecHasher { n: 0, x: 0, s: 0, w: 0 }
    }
}
impl std::hash::Hasher for RecHasher {
    fn finish(&self) -> u64 {
        0
    }
    fn write(&mut self, bytes: &[u8]) {
        let l = bytes.len();
        assert!(l <= 40, "harness bound: hashed chunk longer than 40 bytes");
        rep40!(|i: usize| if i < l {
            self.x ^= bytes[i];
            self.s = self.s.wrapping_add(bytes[i]);
            self.w = self.w.wrapping_add((self.n as u32 + 1).wrapping_mul(bytes[i] as u32));
            self.n += 1;
        });
    }
}

fn any_sig() -> Vec<u8> {
    let s: [u8; 6] = sym::bytes::<6>();
    let n = sym::usize();
    sym::assume(n <= 6);
    mk_vec(&s[..n])
}

fn any_rec_small() -> Enr<MKey> {
    let mut m: Map = BTreeMap::new();
    let v: [u8; 2] = sym::bytes::<2>();
    m.insert(b"k".to_vec(), mk_bytes(&v));
    let id: [u8; 32] = sym::bytes::<32>();
    Enr::<MKey>::verif_from_parts(sym::u64(), NodeId::new(&id), m, any_sig())
}

/// a == b  <=>  (seq, node id, signature) equal; equal records hash identically; a clone equals
/// its original; symmetry
#[cfg_attr(kani, kani::proof)]
pub fn a15_eq_hash() {
    use std::hash::Hash;
    let a = any_rec_small();
    let b = any_rec_small();
    let eq = a == b;
    let eq_rev = b == a;
    let triple = a.seq() == b.seq() && sym::eq32(&a.node_id().raw(), &b.node_id().raw()) && sym::eq_short(a.signature(), b.signature());
    let mut ha = RecHasher::new();
    let mut hb = RecHasher::new();
    a.hash(&mut ha);
    b.hash(&mut hb);
    let same_hash = ha.n == hb.n && ha.x == hb.x && ha.s == hb.s && ha.w == hb.w;
    let c = a.clone();
    let clone_eq = c == a && c.seq() == a.seq() && sym::eq32(&c.node_id().raw(), &a.node_id().raw()) && sym::eq_short(c.signature(), a.signature())
        && c.get_raw_rlp("k") == a.get_raw_rlp("k");
    let refl = a == a;
    vcover!(eq, "equal records");
    vcover!(!eq && a.seq() == b.seq() && sym::eq32(&a.node_id().raw(), &b.node_id().raw()), "differ in signature only");
    vcover!(!eq && sym::eq_short(a.signature(), b.signature()) && sym::eq32(&a.node_id().raw(), &b.node_id().raw()), "differ in seq only");
    core::mem::forget(a);
    core::mem::forget(b);
    core::mem::forget(c);
    assert!(eq == triple, "C15: equality is equality of sequence number, node id and signature");
    assert!(eq == eq_rev, "C15: equality is symmetric");
    assert!(refl, "C15: equality is reflexive");
    assert!(!eq || same_hash, "C15: equal records hash equally");
    assert!(ha.n > 0, "C15: hashing feeds the hasher");
    assert!(clone_eq, "C15: a record equals its clone and the clone has the same fields");
}

/// transitivity on three records
#[cfg_attr(kani, kani::proof)]
pub fn a15_transitive() {
    let a = any_rec_small();
    let b = any_rec_small();
    let c = any_rec_small();
    let (ab, bc, ac) = (a == b, b == c, a == c);
    vcover!(ab && bc, "chain of equal records");
    core::mem::forget(a);
    core::mem::forget(b);
    core::mem::forget(c);
    assert!(!(ab && bc) || ac, "C15: equality is transitive");
}

/// record with ONE pair <name>: 81 xx (symbolic one-byte name and value byte), symbolic seq
fn any_rec_content() -> (Enr<MKey>, u64, u8, u8) {
    let name = sym::u8();
    sym::assume(name >= b'a' && name <= b'z');
    let v = sym::u8();
    sym::assume(v >= 0x80);
    let mut sm = SortedMap::new();
    sm.push(&[name], mk_bytes(&[0x81, v]));
    let seq = sym::u64();
    let id: [u8; 32] = sym::bytes::<32>();
    (Enr::<MKey>::verif_from_parts(seq, NodeId::new(&id), sm.done(), any_sig()), seq, name, v)
}

/// compare_content <=> same seq and same pairs, regardless of signature and node id
#[cfg_attr(kani, kani::proof)]
pub fn a15_compare_content() {
    let (a, sa, na, va) = any_rec_content();
    let (b, sb, nb, vb) = any_rec_content();
    let cc = a.compare_content(&b);
    let cc_rev = b.compare_content(&a);
    let same = sa == sb && na == nb && va == vb;
    vcover!(cc && !sym::eq_short(a.signature(), b.signature()), "same content, other signature");
    vcover!(!cc && sa == sb && na == nb, "same seq and keys, other value");
    core::mem::forget(a);
    core::mem::forget(b);
    assert!(cc == same, "C15: compare_content is true exactly for equal sequence number and pairs");
    assert!(cc == cc_rev, "C15: compare_content is symmetric");
}

/// compare_content on records with DIFFERENT numbers of pairs: {k, n} vs {k} and vs {k, n, z}
/// (same seq, same leading pairs): never equal
#[cfg_attr(kani, kani::proof)]
pub fn a15_compare_lengths() {
    let seq = sym::u8() as u64;
    let kv: [u8; 2] = [0x81, sym::u8()];
    sym::assume(kv[1] >= 0x80);
    let v: [u8; 2] = [0x81, sym::u8()];
    sym::assume(v[1] >= 0x80);
    let w: [u8; 2] = [0x81, sym::u8()];
    sym::assume(w[1] >= 0x80);
    let mk = |n: usize| {
        let mut sm = SortedMap::new();
        sm.push(b"k", mk_bytes(&kv));
        if n >= 2 {
            sm.push(b"n", mk_bytes(&v));
        }
        if n >= 3 {
            sm.push(b"z", mk_bytes(&w));
        }
        Enr::<MKey>::verif_from_parts(seq, NodeId::new(&[0u8; 32]), sm.done(), Vec::new())
    };
    let (a, b, c) = (mk(1), mk(2), mk(3));
    let r = (a.compare_content(&b), b.compare_content(&a), b.compare_content(&c), c.compare_content(&b), b.compare_content(&b));
    core::mem::forget(a);
    core::mem::forget(b);
    core::mem::forget(c);
    assert!(!r.0 && !r.1, "C15: compare_content is false when one record has a pair the other lacks");
    assert!(!r.2 && !r.3, "C15: compare_content is false when one record's pairs are a strict prefix of the other's");
    assert!(r.4, "C15: compare_content of a record with itself is true");
}

// ------------------------------------------------------------------------------------------------
// verify() pinned on by-parts records (used compositionally by C05/C06, and by C01)
// ------------------------------------------------------------------------------------------------

/// verify() is true exactly when id is "v4" and the signature is the carried key's MAC over the
/// record's content list: arbitrary seq, arbitrary id value (2 bytes), arbitrary signature bytes and
/// length 0..=6, one optional port entry.
#[cfg_attr(kani, kani::proof)]
#[cfg_attr(kani, kani::stub(enr::digest, digest_stub))]
#[cfg_attr(kani, kani::stub(enr::Enr::id, id_stub))]
#[cfg_attr(kani, kani::stub(<[u8]>::to_vec, to_vec_stub))]
pub fn a_verify_iff() {
    let seq = sym::u64();
    let pk = sym::u8();
    sym::assume(pk >= 0x80);
    let idv: [u8; 2] = sym::bytes::<2>();
    let idraw = [0x82u8, idv[0], idv[1]];
    let kraw = [0x81u8, pk];
    let port = sym::u16();
    let (pe, pn) = ref_port_enc(port);
    let pairs: [(&[u8], &[u8]); 3] = [(b"id", &idraw), (KNAME, &kraw), (b"tcp", &pe[..pn])];
    let mut sm = SortedMap::new();
    sm.push(b"id", mk_bytes(&idraw));
    sm.push(KNAME, mk_bytes(&kraw));
    sm.push(b"tcp", mk_bytes(&pe[..pn]));
    let sig: [u8; 6] = sym::bytes::<6>();
    let sl = sym::usize();
    sym::assume(sl <= 6);
    let e = Enr::<MKey>::verif_from_parts(seq, NodeId::new(&hdigest(&[pk])), sm.done(), mk_vec(&sig[..sl]));
    let got = e.verify();
    core::mem::forget(e);
    let m = ref_mac(pk, seq, &pairs);
    let sig_good = sl >= 3 && sig[0] == m[0] && sig[1] == m[1] && sig[2] == m[2]
        && (sl < 4 || sig[3] == m[3]) && (sl < 5 || sig[4] == 0x55) && (sl < 6 || sig[5] == 0x55);
    let want = idv[0] == b'v' && idv[1] == b'4' && sig_good;
    vcover!(got, "verifies");
    vcover!(!got && sig_good, "good signature, other identity scheme");
    vcover!(!got && idv[0] == b'v' && idv[1] == b'4', "v4 with a bad signature");
    assert!(got == want, "C05: verify() holds exactly for id v4 and a signature of the carried key over the record's content");
}

// ------------------------------------------------------------------------------------------------
// client_info (EIP-7636): any list of 0..=4 byte strings of at most one byte each under "client"
// ------------------------------------------------------------------------------------------------

/// client_info() on concrete client entries (lists of 0..=4 one-byte strings "a".."d"): never
/// panics, Some exactly for two or three elements, then exactly those strings. (Symbolic string
/// contents run the lossy UTF-8 conversion and `Vec<Bytes>` decoding symbolically: out of memory at
/// 10 GB, so the contents are concrete; `cnt` is concrete per harness.)
#[inline(always)]
fn client_body(cnt: u8) {
    let raw: [u8; 5] = [0xc0 + cnt, b'a', b'b', b'c', b'd'];
    let mut sm = SortedMap::new();
    sm.push(b"client", mk_bytes(&raw[..1 + cnt as usize]));
    let e = rec(sm.done());
    let got = e.client_info();
    core::mem::forget(e);
    let good = match (&got, cnt) {
        (None, 0) | (None, 1) | (None, 4) => true,
        (Some((a, b, None)), 2) => a.as_bytes() == b"a" && b.as_bytes() == b"b",
        (Some((a, b, Some(x))), 3) => a.as_bytes() == b"a" && b.as_bytes() == b"b" && x.as_bytes() == b"c",
        _ => false,
    };
    core::mem::forget(got);
    assert!(good, "C14: client_info reports exactly the two or three strings stored, and nothing for other lists");
}
#[cfg_attr(kani, kani::proof)]
pub fn a14_client_0() {
    client_body(0)
}
#[cfg_attr(kani, kani::proof)]
pub fn a14_client_1() {
    client_body(1)
}
#[cfg_attr(kani, kani::proof)]
#[cfg_attr(kani, kani::stub(std::string::String::from_utf8_lossy, lossy_stub))]
pub fn a14_client_2() {
    client_body(2)
}
#[cfg_attr(kani, kani::proof)]
#[cfg_attr(kani, kani::stub(std::string::String::from_utf8_lossy, lossy_stub))]
pub fn a14_client_3() {
    client_body(3)
}
#[cfg_attr(kani, kani::proof)]
pub fn a14_client_4() {
    client_body(4)
}
