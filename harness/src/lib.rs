//! Verification harnesses for `enr` (see /verif/DESIGN.md). One source, two builds:
//! `cargo kani` (symbolic, decides) and a native build (`replay` binary, confirms counterexamples).
#![allow(clippy::all)]
#[macro_use]
pub mod sym;
pub mod serde_drv;
pub mod verif_types;
pub mod mkey;
pub mod refmodel;
pub mod fam_n;
pub mod fam_a;
pub mod fam_u;
pub mod fam_d;
pub mod fam_t;

#[cfg(not(kani))]
pub mod registry;
