//! Verification harnesses for `enr` (see /verif/DESIGN.md). One source, two builds:
//! `cargo kani` (symbolic, decides) and a native build (`replay` binary, confirms counterexamples).
#![allow(clippy::all)]
#[macro_use]
pub mod sym;
pub mod serde_drv;
pub mod fam_n;

#[cfg(not(kani))]
pub mod registry;
