//! Family T: text and JSON forms (property C12, text half of C04). The base64 engine is a table
//! driven loop over the input; on symbolic text it did not fit the caps (82 s for 8 characters, a
//! record needs >= 23), so strictness is decided on CONCRETE probe strings, which fold completely
//! and therefore stay decidable whatever string searching a changed parser uses, and the canonical
//! form is decided for all records of the T-min shape (symbolic payload bytes, through the real
//! encoder).
use crate::mkey::*;
use crate::serde_drv::{CapSer, StrDe};
use crate::sym;
use enr::Enr;
use serde::{Deserialize, Serialize};
use std::str::FromStr;

fn oracle_yes() {
    unsafe {
        SIGMODE = ORACLE;
        V_RET = true;
        V_CALLS = 0;
    }
}

/// text of the concrete record [sig 01020304, seq 0x90, id v4, k 0x99]
macro_rules! t { () => { "0IQBAgMEgZCCaWSCdjRrgZk" }; }
/// the same with signature bytes fb ff fe 3e (characters '_' and '-' of the URL-safe alphabet)
macro_rules! t2 { () => { "0IT7__4-gZCCaWSCdjRrgZk" }; }

#[inline(always)]
fn parses(s: &str) -> bool {
    let r = Enr::<MKey>::from_str(s);
    let ok = r.is_ok();
    core::mem::forget(r);
    ok
}

/// accepted: the canonical text with and without prefix. Rejected: repeated / upper-case / other
/// prefix, padding, standard alphabet, blanks, non-zero trailing bits, a byte after the record,
/// truncation.
#[cfg_attr(kani, kani::proof)]
#[cfg_attr(kani, kani::stub(enr::digest, digest_stub))]
#[cfg_attr(kani, kani::stub(enr::Enr::id, id_stub))]
pub fn t_probes_accept() {
    oracle_yes();
    let a = parses(concat!("enr:", t!()));
    let b = parses(t!());
    let c = parses(concat!("enr:", t2!()));
    assert!(a && b && c, "C12: the canonical text is accepted with and without the enr: prefix");
}

/// other prefixes
#[cfg_attr(kani, kani::proof)]
#[cfg_attr(kani, kani::stub(enr::digest, digest_stub))]
#[cfg_attr(kani, kani::stub(enr::Enr::id, id_stub))]
pub fn t_probes_prefix() {
    oracle_yes();
    let mut any = false;
    any |= parses(concat!("enr:enr:", t!()));
    any |= parses(concat!("ENR:", t!()));
    any |= parses(concat!("Enr:", t!()));
    any |= parses(concat!("enr", t!()));
    any |= parses(concat!("enr::", t!()));
    any |= parses(concat!(":", t!()));
    assert!(!any, "C12: the parser accepts the canonical text with or without the prefix and nothing else");
}

/// padding, the standard alphabet, blanks
#[cfg_attr(kani, kani::proof)]
#[cfg_attr(kani, kani::stub(enr::digest, digest_stub))]
#[cfg_attr(kani, kani::stub(enr::Enr::id, id_stub))]
pub fn t_probes_alphabet() {
    oracle_yes();
    let mut any = false;
    any |= parses(concat!(t!(), "="));
    any |= parses(concat!("enr:", t!(), "="));
    any |= parses("enr:0IT7//4+gZCCaWSCdjRrgZk");
    any |= parses(concat!(" ", t!()));
    any |= parses(concat!(t!(), " "));
    any |= parses(concat!("enr: ", t!()));
    any |= parses(concat!(t!(), "\n"));
    assert!(!any, "C12: the parser accepts the canonical text with or without the prefix and nothing else");
}

/// non-zero trailing bits, bytes after the record, truncation
#[cfg_attr(kani, kani::proof)]
#[cfg_attr(kani, kani::stub(enr::digest, digest_stub))]
#[cfg_attr(kani, kani::stub(enr::Enr::id, id_stub))]
pub fn t_probes_bits() {
    oracle_yes();
    let mut any = false;
    any |= parses("0IQBAgMEgZCCaWSCdjRrgZl");
    any |= parses("0IQBAgMEgZCCaWSCdjRrgZm");
    any |= parses("enr:0IQBAgMEgZCCaWSCdjRrgZn8");
    any |= parses("0IQBAgMEgZCCaWSCdjRrgZkA");
    any |= parses("0IQBAgMEgZCCaWSCdjRrgZ");
    any |= parses("enr:");
    any |= parses("");
    assert!(!any, "C12: the parser accepts the canonical text with or without the prefix and nothing else");
}

/// to_base64 / Display / Serialize of the concrete record are the canonical text, Deserialize
/// equals from_str
#[cfg_attr(kani, kani::proof)]
#[cfg_attr(kani, kani::stub(enr::digest, digest_stub))]
#[cfg_attr(kani, kani::stub(enr::Enr::id, id_stub))]
pub fn t_forms() {
    oracle_yes();
    let r = Enr::<MKey>::from_str(t!());
    let e = match r {
        Ok(e) => e,
        Err(_) => {
            assert!(false, "C12: the canonical text parses");
            return;
        }
    };
    let txt = e.to_base64();
    let txt_ok = txt.as_bytes() == concat!("enr:", t!()).as_bytes();
    let ser = e.serialize(CapSer);
    let ser_ok = match &ser { Ok(s) => s.as_bytes() == concat!("enr:", t!()).as_bytes(), Err(_) => false };
    let de = Enr::<MKey>::deserialize(StrDe(concat!("enr:", t!())));
    let de_ok = match &de { Ok(d) => *d == e && d.seq() == e.seq(), Err(_) => false };
    let de_bad = Enr::<MKey>::deserialize(StrDe(concat!("enr:enr:", t!()))).is_ok();
    core::mem::forget(txt);
    core::mem::forget(ser);
    core::mem::forget(de);
    core::mem::forget(e);
    assert!(txt_ok, "C12: the text form is enr: followed by the unpadded URL-safe base64 of the encoding");
    assert!(ser_ok, "C12: the JSON string is the text form");
    assert!(de_ok, "C12: deserialising the JSON string returns an equal record");
    assert!(!de_bad, "C12: deserialisation is as strict as from_str");
}
