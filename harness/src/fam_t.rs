//! Family T: text and JSON forms (property C12, text half of C04). The base64 engine is a table
//! driven loop over the input; on symbolic text it did not fit the caps (82 s for 8 characters, a
//! record needs >= 23), so strictness is decided on CONCRETE probe strings, which fold completely
//! and therefore stay decidable whatever string searching a changed parser uses, and the canonical
//! form is decided for all records of the T-min shape (symbolic payload bytes, through the real
//! encoder).
extern crate alloc;
use crate::mkey::*;
use crate::serde_drv::{CapSer, StrDe};
use crate::sym;
use enr::Enr;
use serde::{Deserialize, Serialize};
use std::str::FromStr;

/// Stub for `alloc::fmt::format` on the REJECT paths only (error messages are built with
/// `format!("...{e:?}")`; the formatting machinery does not fit the caps and the text of the message
/// is not part of any property): returns an empty string.
pub fn format_stub(_args: core::fmt::Arguments<'_>) -> String {
    String::new()
}

fn oracle_yes() {
    unsafe {
        SIGMODE = ORACLE;
        V_RET = true;
        V_CALLS = 0;
    }
}

/// text of the concrete record [sig 01020304, seq 0x90, id v4, k 0x99]
macro_rules! t { () => { "0IQBAgMEgZCCaWSCdjRrgZk" }; }
/// the same with signature bytes fb ff fe 3e (characters '_' and '-' of the URL-safe alphabet)
macro_rules! t2 { () => { "0IT7__4-gZCCaWSCdjRrgZk" }; }

#[inline(always)]
fn parses(s: &str) -> bool {
    let r = Enr::<MKey>::from_str(s);
    let ok = r.is_ok();
    core::mem::forget(r);
    ok
}

/// accepted: the canonical text with and without prefix. Rejected: repeated / upper-case / other
/// prefix, padding, standard alphabet, blanks, non-zero trailing bits, a byte after the record,
/// truncation.
#[cfg_attr(kani, kani::proof)]
#[cfg_attr(kani, kani::stub(enr::digest, digest_stub))]
#[cfg_attr(kani, kani::stub(enr::Enr::id, id_stub))]
pub fn t_probes_accept() {
    oracle_yes();
    let a = parses(concat!("enr:", t!()));
    let b = parses(t!());
    let c = parses(concat!("enr:", t2!()));
    assert!(a && b && c, "C12: the canonical text is accepted with and without the enr: prefix");
}

/// other prefixes
#[cfg_attr(kani, kani::proof)]
#[cfg_attr(kani, kani::stub(enr::digest, digest_stub))]
#[cfg_attr(kani, kani::stub(enr::Enr::id, id_stub))]
#[cfg_attr(kani, kani::stub(alloc::fmt::format, format_stub))]
pub fn t_probes_prefix() {
    oracle_yes();
    let mut any = false;
    any |= parses(concat!("enr:enr:", t!()));
    any |= parses(concat!("ENR:", t!()));
    any |= parses(concat!("Enr:", t!()));
    any |= parses(concat!("enr", t!()));
    any |= parses(concat!("enr::", t!()));
    any |= parses(concat!(":", t!()));
    assert!(!any, "C12: the parser accepts the canonical text with or without the prefix and nothing else");
}

/// padding, the standard alphabet, blanks
#[cfg_attr(kani, kani::proof)]
#[cfg_attr(kani, kani::stub(enr::digest, digest_stub))]
#[cfg_attr(kani, kani::stub(enr::Enr::id, id_stub))]
#[cfg_attr(kani, kani::stub(alloc::fmt::format, format_stub))]
pub fn t_probes_alphabet() {
    oracle_yes();
    let mut any = false;
    any |= parses(concat!(t!(), "="));
    any |= parses(concat!("enr:", t!(), "="));
    any |= parses("enr:0IT7//4+gZCCaWSCdjRrgZk");
    any |= parses(concat!(" ", t!()));
    any |= parses(concat!(t!(), " "));
    any |= parses(concat!("enr: ", t!()));
    any |= parses(concat!(t!(), "\n"));
    assert!(!any, "C12: the parser accepts the canonical text with or without the prefix and nothing else");
}

/// Deserialize is as strict as from_str (reject path, error formatting stubbed)
#[cfg_attr(kani, kani::proof)]
#[cfg_attr(kani, kani::stub(enr::digest, digest_stub))]
#[cfg_attr(kani, kani::stub(enr::Enr::id, id_stub))]
#[cfg_attr(kani, kani::stub(alloc::fmt::format, format_stub))]
pub fn t_de_strict() {
    oracle_yes();
    let a = Enr::<MKey>::deserialize(StrDe(concat!("enr:enr:", t!()))).is_ok();
    let b = Enr::<MKey>::deserialize(StrDe(concat!(t!(), "="))).is_ok();
    let c = Enr::<MKey>::deserialize(StrDe("0IQBAgMEgZCCaWSCdjRrgZn8")).is_ok();
    assert!(!a && !b && !c, "C12: deserialisation is as strict as from_str");
}

/// rejected: last character with a non-zero trailing bit
#[cfg_attr(kani, kani::proof)]
#[cfg_attr(kani, kani::stub(enr::digest, digest_stub))]
#[cfg_attr(kani, kani::stub(enr::Enr::id, id_stub))]
#[cfg_attr(kani, kani::stub(alloc::fmt::format, format_stub))]
pub fn t_no_trailing_bits_1() {
    oracle_yes();
    let any = parses("0IQBAgMEgZCCaWSCdjRrgZl");
    assert!(!any, "C12: the parser accepts the canonical text with or without the prefix and nothing else");
}

/// rejected: last character with the other trailing bit set
#[cfg_attr(kani, kani::proof)]
#[cfg_attr(kani, kani::stub(enr::digest, digest_stub))]
#[cfg_attr(kani, kani::stub(enr::Enr::id, id_stub))]
#[cfg_attr(kani, kani::stub(alloc::fmt::format, format_stub))]
pub fn t_no_trailing_bits_2() {
    oracle_yes();
    let any = parses("0IQBAgMEgZCCaWSCdjRrgZm");
    assert!(!any, "C12: the parser accepts the canonical text with or without the prefix and nothing else");
}

/// rejected: one more byte after the record before encoding
#[cfg_attr(kani, kani::proof)]
#[cfg_attr(kani, kani::stub(enr::digest, digest_stub))]
#[cfg_attr(kani, kani::stub(enr::Enr::id, id_stub))]
#[cfg_attr(kani, kani::stub(alloc::fmt::format, format_stub))]
pub fn t_no_trailing_byte() {
    oracle_yes();
    let any = parses("enr:0IQBAgMEgZCCaWSCdjRrgZn8");
    assert!(!any, "C12: the parser accepts the canonical text with or without the prefix and nothing else");
}

/// rejected: one more character
#[cfg_attr(kani, kani::proof)]
#[cfg_attr(kani, kani::stub(enr::digest, digest_stub))]
#[cfg_attr(kani, kani::stub(enr::Enr::id, id_stub))]
#[cfg_attr(kani, kani::stub(alloc::fmt::format, format_stub))]
pub fn t_no_extra_char() {
    oracle_yes();
    let any = parses("0IQBAgMEgZCCaWSCdjRrgZkA");
    assert!(!any, "C12: the parser accepts the canonical text with or without the prefix and nothing else");
}

/// rejected: one character missing
#[cfg_attr(kani, kani::proof)]
#[cfg_attr(kani, kani::stub(enr::digest, digest_stub))]
#[cfg_attr(kani, kani::stub(enr::Enr::id, id_stub))]
#[cfg_attr(kani, kani::stub(alloc::fmt::format, format_stub))]
pub fn t_no_truncated() {
    oracle_yes();
    let any = parses("0IQBAgMEgZCCaWSCdjRrgZ");
    assert!(!any, "C12: the parser accepts the canonical text with or without the prefix and nothing else");
}

/// rejected: prefix only and empty string
#[cfg_attr(kani, kani::proof)]
#[cfg_attr(kani, kani::stub(enr::digest, digest_stub))]
#[cfg_attr(kani, kani::stub(enr::Enr::id, id_stub))]
#[cfg_attr(kani, kani::stub(alloc::fmt::format, format_stub))]
pub fn t_no_empty() {
    oracle_yes();
    let any = parses("enr:");
    assert!(!any, "C12: the parser accepts the canonical text with or without the prefix and nothing else");
}

/// to_base64 and Display of the concrete record are enr: + the canonical base64
#[cfg_attr(kani, kani::proof)]
#[cfg_attr(kani, kani::stub(enr::digest, digest_stub))]
#[cfg_attr(kani, kani::stub(enr::Enr::id, id_stub))]
pub fn t_to_base64() {
    oracle_yes();
    let r = Enr::<MKey>::from_str(t!());
    let e = match r {
        Ok(e) => e,
        Err(_) => {
            assert!(false, "C12: the canonical text parses");
            return;
        }
    };
    let txt = e.to_base64();
    let txt_ok = txt.as_bytes() == concat!("enr:", t!()).as_bytes();
    core::mem::forget(txt);
    core::mem::forget(e);
    assert!(txt_ok, "C12: the text form is enr: followed by the unpadded URL-safe base64 of the encoding");
}

/// every ASCII text of length 0..=5 through from_str: rejected with an error value, no panic
#[cfg_attr(kani, kani::proof)]
#[cfg_attr(kani, kani::stub(enr::digest, digest_stub))]
#[cfg_attr(kani, kani::stub(enr::Enr::id, id_stub))]
#[cfg_attr(kani, kani::stub(alloc::fmt::format, format_stub))]
pub fn t_any_small() {
    oracle_yes();
    let b: [u8; 5] = sym::bytes::<5>();
    sym::assume(b[0] < 0x80 && b[1] < 0x80 && b[2] < 0x80 && b[3] < 0x80 && b[4] < 0x80);
    let n = sym::u8();
    sym::assume(n <= 5);
    let mut any = false;
    macro_rules! go { ($len:expr) => { if n == $len { any = parses(unsafe { core::str::from_utf8_unchecked(&b[..$len]) }); } }; }
    go!(0);
    go!(1);
    go!(2);
    go!(3);
    go!(4);
    go!(5);
    assert!(!any, "C12: the parser accepts the canonical text with or without the prefix and nothing else");
}
