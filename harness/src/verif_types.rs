//! the map type `enr` is compiled with in this build: the model under Kani, std's natively
pub use enr::verif_map::BTreeMap;
