//! Family U: ONE update step from an arbitrary valid pre-state (DESIGN.md section 3/U). The
//! pre-state is assembled from parts in a fixed layout (concrete key names, symbolic values,
//! symbolic sequence number) and carries a signature that is valid by construction under the MAC
//! model; then one mutator is called with symbolic arguments and a symbolic signer (same or other
//! key, may fail, signature length 3..=6). One inductive step from a symbolic valid state stands
//! for call histories of any length (the invariant is re-established on Ok, the state is unchanged
//! on Err). Obligations of C05, C06, C07, C08, C09, C10, C14 are asserted on locals, one `assert!`
//! each, message prefixed with the property id. Runs on a scaled MAX_ENR_SIZE (variant).
use crate::mkey::*;
use crate::refmodel::*;
use crate::sym;
use enr::{Enr, Error, NodeId};

pub const ID_RAW: [u8; 3] = [0x82, b'v', b'4'];
pub const MAXSZ: usize = enr::VERIF_MAX_ENR_SIZE;
pub type Pairs<'a> = [(&'a [u8], &'a [u8])];

/// observable state of a record, taken with the public accessors only
pub struct Snap {
    pub seq: u64,
    pub node_id: [u8; 32],
    pub sig: [u8; 8],
    pub sig_len: usize,
}

pub fn snap(e: &Enr<MKey>) -> Snap {
    let s = e.signature();
    let mut sig = [0u8; 8];
    assert!(s.len() <= 8, "harness bound: signature longer than 8 bytes");
    sig[..s.len()].copy_from_slice(s);
    Snap { seq: e.seq(), node_id: e.node_id().raw(), sig, sig_len: s.len() }
}

pub fn same_snap(a: &Snap, b: &Snap) -> bool {
    a.seq == b.seq && sym::eq32(&a.node_id, &b.node_id) && sym::eq_short(&a.sig[..a.sig_len], &b.sig[..b.sig_len])
}

/// the record's pairs, in iteration order, are exactly `want`
#[inline(always)]
pub fn pairs_are(e: &Enr<MKey>, want: &Pairs) -> bool {
    let mut it = e.iter();
    let mut ok = true;
    rep6!(|i: usize| if i < want.len() {
        match it.next() {
            Some((k, v)) => ok = ok && k.as_slice() == want[i].0 && v == want[i].1,
            None => ok = false,
        }
    });
    ok && it.next().is_none()
}

pub struct Pre {
    pub e: Enr<MKey>,
    pub pk: u8,
    pub sig_len: usize,
}

/// pre-state with the given pairs (in key order; must contain id and k = 81 pk) and a signature of
/// `pk` that is valid by construction (MAC model)
pub fn pre_state(pk: u8, seq: u64, pairs: &Pairs) -> Pre {
    let sig_len = sym::u8() as usize;
    sym::assume(sig_len >= 3 && sig_len <= 6);
    let mut sm = SortedMap::new();
    rep6!(|i: usize| if i < pairs.len() {
        sm.push(pairs[i].0, mk_bytes(pairs[i].1));
    });
    let sig = ref_mac(pk, seq, pairs);
    let e = Enr::<MKey>::verif_from_parts(seq, NodeId::new(&hdigest(&[pk])), sm.done(), mk_vec(&sig[..sig_len]));
    sym::assume(ref_record_len(sig_len, seq, pairs) <= MAXSZ);
    Pre { e, pk, sig_len }
}

pub fn any_pk() -> u8 {
    let pk = sym::u8();
    sym::assume(pk >= 0x80);
    pk
}

pub fn err_kind(r: &Result<(), Error>) -> u8 {
    match r {
        Ok(()) => 0,
        Err(Error::ExceedsMaxSize) => 1,
        Err(Error::SequenceNumberTooHigh) => 2,
        Err(Error::SigningError) => 3,
        Err(Error::UnsupportedIdentityScheme) => 4,
        Err(Error::InvalidRlpData(_)) => 5,
    }
}

/// which error causes are present for an update whose model result is `want` (pairs after a
/// successful call); used to decide the admissible error kinds
pub struct Causes {
    pub size_first: bool,  // candidate content with the OLD signature and seq exceeds the limit
    pub size_final: bool,  // the finished record (new seq, new signature) exceeds the limit
    pub seq_overflow: bool,
    pub signer_fails: bool,
}

/// Obligations common to every update step that increments the sequence number.
/// `pre`: the pairs before; `want`: the pairs the sorted-map model predicts after success.
#[inline(always)]
pub fn step_obligations(
    e: &Enr<MKey>,
    before: &Snap,
    pre: &Pairs,
    res: &Result<(), Error>,
    signer: &MKey,
    want: &Pairs,
    want_seq: u64,
    causes: &Causes,
    checks_first_size: bool,
) {
    let after = snap(e);
    let kind = err_kind(res);
    let ok = kind == 0;
    let verifies = e.verify();
    let size = e.size();
    let nid_from_pk = sym::eq32(&NodeId::from(e.public_key()).raw(), &after.node_id);
    let pairs_model = pairs_are(e, want);
    let pairs_pre = pairs_are(e, pre);
    let unchanged = same_snap(before, &after) && pairs_pre;
    let want_sig = ref_mac(signer.id, want_seq, want);
    let sig_is_signers = after.sig_len == signer.sig_len as usize && sym::eq_short(&after.sig[..after.sig_len], &want_sig[..after.sig_len]);
    let want_len = ref_record_len(signer.sig_len as usize, want_seq, want);
    let pre_len = ref_record_len(before.sig_len, before.seq, pre);
    let any_size_cause = (checks_first_size && causes.size_first) || causes.size_final;
    vcover!(ok, "update Ok");
    vcover!(kind == 1, "Err(ExceedsMaxSize)");
    vcover!(kind == 2, "Err(SequenceNumberTooHigh)");
    vcover!(kind == 3, "Err(SigningError)");
    vcover!(ok && signer.id != before.node_id[0], "re-keyed");
    // ---- C05: Ok => valid record, re-keyed to the signer
    assert!(!ok || verifies, "C05: a successfully updated record verifies");
    assert!(!ok || sym::eq32(&after.node_id, &hdigest(&[signer.id])), "C05: after an update the node id is the hash of the signer's public key");
    assert!(!ok || sig_is_signers, "C05: after an update the signature is the signer's signature over the new content");
    assert!(!ok || size <= MAXSZ, "C05: a successfully updated record fits the size limit");
    // ---- C06: Err => untouched
    assert!(ok || unchanged, "C06: a failed update leaves seq, node id, signature and pairs unchanged");
    assert!(ok || verifies, "C06: a record still verifies after a failed update");
    assert!(ok || size == pre_len, "C06: a failed update leaves the encoding length unchanged");
    // ---- C07
    assert!(!ok || after.seq == want_seq, "C07: a successful update sets the sequence number to exactly the expected value");
    assert!(!causes.seq_overflow || !ok, "C07: an update at 2^64-1 fails instead of wrapping");
    // ---- C08: pairs are those of the sorted-map model (incl. id = v4 and the signer's key)
    assert!(!ok || pairs_model, "C08: after a successful update the pairs are exactly those of the sorted-map model");
    assert!(kind != 3 || causes.signer_fails, "C08: SigningError is reported only when the signer failed");
    assert!(kind != 2 || causes.seq_overflow, "C08: SequenceNumberTooHigh is reported only at 2^64-1");
    assert!(kind != 1 || any_size_cause, "C09: an update is refused for size only when its result would exceed the limit");
    assert!(ok || causes.signer_fails || causes.seq_overflow || any_size_cause || kind == 4 || kind == 5,
            "C08: an update fails only for a cause that is present");
    // ---- C09
    assert!(!ok || size == want_len, "C09: size() equals the length of the encoding predicted from the parts");
    assert!(!causes.size_final || !ok, "C09: an update whose result exceeds the limit is refused");
    assert!(size <= MAXSZ, "C09: no record handed out exceeds the size limit");
    // ---- C10
    assert!(nid_from_pk, "C10: node id equals the id derived from the public-key accessor");
    assert!(!ok || signer.id != before.node_id[0] || sym::eq32(&after.node_id, &before.node_id),
            "C10: an update with the same key does not change the node id");
}

pub fn causes_for(pre_sig_len: usize, seq: u64, signer: &MKey, want: &Pairs, bumps_seq: bool, want_seq: u64) -> Causes {
    Causes {
        size_first: ref_record_len(pre_sig_len, seq, want) > MAXSZ,
        size_final: ref_record_len(signer.sig_len as usize, want_seq, want) > MAXSZ,
        seq_overflow: bumps_seq && seq == u64::MAX,
        signer_fails: signer.fail,
    }
}

/// set_tcp4 on {id, k}: typed setter through insert / insert_raw_rlp
#[cfg_attr(kani, kani::proof)]
#[cfg_attr(kani, kani::stub(enr::digest, digest_stub))]
#[cfg_attr(kani, kani::stub(std::string::String::from_utf8_lossy, lossy_stub))]
pub fn u_set_tcp4() {
    let seq = sym::u64();
    let pk = any_pk();
    let kraw0 = [0x81u8, pk];
    let pre: [(&[u8], &[u8]); 2] = [(b"id", &ID_RAW), (KNAME, &kraw0)];
    let p = pre_state(pk, seq, &pre);
    let mut e = p.e;
    let signer = any_key();
    let before = snap(&e);
    let port = sym::u16();
    let r = e.set_tcp4(port, &signer);
    let (pe, pn) = ref_port_enc(port);
    let kraw = [0x81u8, signer.id];
    let want: [(&[u8], &[u8]); 3] = [(b"id", &ID_RAW), (KNAME, &kraw), (b"tcp", &pe[..pn])];
    let prev_none = matches!(r, Ok(None)) || r.is_err();
    let res = r.map(|_| ());
    let got_port = e.tcp4();
    let got_raw_ok = e.get_raw_rlp("tcp") == Some(&pe[..pn]);
    let want_seq = seq.wrapping_add(1);
    let causes = causes_for(p.sig_len, seq, &signer, &want, true, want_seq);
    step_obligations(&e, &before, &pre, &res, &signer, &want, want_seq, &causes, true);
    assert!(prev_none, "C08: a setter on an absent key returns no previous value");
    assert!(res.is_err() || got_port == Some(port), "C14: a port set through the typed setter reads back as the value set");
    assert!(res.is_err() || got_raw_ok, "C14: a typed setter stores the canonical encoding");
    assert!(err_kind(&res) != 4 && err_kind(&res) != 5, "C08: a typed setter never reports identity-scheme or RLP errors");
    core::mem::forget(e);
}

// ---- cost probes (development only, not registered) ----
#[cfg_attr(kani, kani::proof)]
#[cfg_attr(kani, kani::stub(enr::digest, digest_stub))]
#[cfg_attr(kani, kani::stub(std::string::String::from_utf8_lossy, lossy_stub))]
#[cfg_attr(kani, kani::stub(<[u8]>::to_vec, to_vec_stub))]
pub fn zp_a() {
    let seq = sym::u64();
    let pk = any_pk();
    let kraw0 = [0x81u8, pk];
    let pre: [(&[u8], &[u8]); 2] = [(b"id", &ID_RAW), (KNAME, &kraw0)];
    let p = pre_state(pk, seq, &pre);
    let mut e = p.e;
    let signer = any_key();
    let port = sym::u16();
    let r = e.set_tcp4(port, &signer);
    let ok = r.is_ok();
    let s1 = e.seq();
    core::mem::forget(e);
    assert!(!ok || s1 == seq.wrapping_add(1), "C07: seq+1");
}
#[cfg_attr(kani, kani::proof)]
#[cfg_attr(kani, kani::stub(enr::digest, digest_stub))]
#[cfg_attr(kani, kani::stub(std::string::String::from_utf8_lossy, lossy_stub))]
#[cfg_attr(kani, kani::stub(<[u8]>::to_vec, to_vec_stub))]
pub fn zp_b() {
    let seq = sym::u64();
    let pk = any_pk();
    let kraw0 = [0x81u8, pk];
    let pre: [(&[u8], &[u8]); 2] = [(b"id", &ID_RAW), (KNAME, &kraw0)];
    let p = pre_state(pk, seq, &pre);
    let mut e = p.e;
    let signer = any_key();
    let port = sym::u16();
    let r = e.set_tcp4(port, &signer);
    let ok = r.is_ok();
    let v = e.verify();
    core::mem::forget(e);
    assert!(v, "C05: verifies");
    assert!(ok || !ok, "x");
}
#[cfg_attr(kani, kani::proof)]
#[cfg_attr(kani, kani::stub(enr::digest, digest_stub))]
#[cfg_attr(kani, kani::stub(std::string::String::from_utf8_lossy, lossy_stub))]
#[cfg_attr(kani, kani::stub(<[u8]>::to_vec, to_vec_stub))]
pub fn zp_c() {
    let seq = sym::u64();
    let pk = any_pk();
    let kraw0 = [0x81u8, pk];
    let pre: [(&[u8], &[u8]); 2] = [(b"id", &ID_RAW), (KNAME, &kraw0)];
    let p = pre_state(pk, seq, &pre);
    let e = p.e;
    let v = e.verify();
    core::mem::forget(e);
    assert!(v, "C05: pre-state verifies");
}
