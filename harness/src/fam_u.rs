//! Family U: ONE update step from an arbitrary valid pre-state (DESIGN.md section 3/U). The
//! pre-state is assembled from parts in a fixed layout (concrete key names, symbolic values,
//! symbolic sequence number) and carries a signature that is valid by construction under the MAC
//! model; then one mutator is called with symbolic arguments and a symbolic signer (same or other
//! key, may fail, signature length 3..=6). One inductive step from a symbolic valid state stands
//! for call histories of any length (the invariant is re-established on Ok, the state is unchanged
//! on Err). Obligations of C05, C06, C07, C08, C09, C10, C14 are asserted on locals, one `assert!`
//! each, message prefixed with the property id. Runs on a scaled MAX_ENR_SIZE (variant).
use crate::mkey::*;
use crate::refmodel::*;
#[allow(unused_imports)]
use crate::mkey::MPub;
use crate::sym;
use enr::{Enr, Error, NodeId};

pub const ID_RAW: [u8; 3] = [0x82, b'v', b'4'];
pub const MAXSZ: usize = enr::VERIF_MAX_ENR_SIZE;
pub type Pairs<'a> = [(&'a [u8], &'a [u8])];

/// observable state of a record, taken with the public accessors only
pub struct Snap {
    pub seq: u64,
    pub node_id: [u8; 32],
    pub sig: [u8; 8],
    pub sig_len: usize,
}

pub fn snap(e: &Enr<MKey>) -> Snap {
    let s = e.signature();
    let mut sig = [0u8; 8];
    assert!(s.len() <= 8, "harness bound: signature longer than 8 bytes");
    sig[..s.len()].copy_from_slice(s);
    Snap { seq: e.seq(), node_id: e.node_id().raw(), sig, sig_len: s.len() }
}

pub fn same_snap(a: &Snap, b: &Snap) -> bool {
    a.seq == b.seq && sym::eq32(&a.node_id, &b.node_id) && sym::eq_short(&a.sig[..a.sig_len], &b.sig[..b.sig_len])
}

/// the record's pairs, in iteration order, are exactly `want`
#[inline(always)]
pub fn pairs_are(e: &Enr<MKey>, want: &Pairs) -> bool {
    let mut it = e.iter();
    let mut ok = true;
    rep6!(|i: usize| if i < want.len() {
        match it.next() {
            Some((k, v)) => ok = ok && k.as_slice() == want[i].0 && v == want[i].1,
            None => ok = false,
        }
    });
    ok && it.next().is_none()
}

pub struct Pre {
    pub e: Enr<MKey>,
    pub pk: u8,
    pub sig_len: usize,
}

/// pre-state with the given pairs (in key order; must contain id and k = 81 pk) and a signature of
/// `pk` that is valid by construction (MAC model)
pub fn pre_state(pk: u8, seq: u64, pairs: &Pairs) -> Pre {
    let sig_len = sym::u8() as usize;
    sym::assume(sig_len >= 3 && sig_len <= 6);
    let mut sm = SortedMap::new();
    rep6!(|i: usize| if i < pairs.len() {
        sm.push(pairs[i].0, mk_bytes(pairs[i].1));
    });
    let sig = ref_mac(pk, seq, pairs);
    let e = Enr::<MKey>::verif_from_parts(seq, NodeId::new(&hdigest(&[pk])), sm.done(), mk_vec(&sig[..sig_len]));
    sym::assume(ref_record_len(sig_len, seq, pairs) <= MAXSZ);
    Pre { e, pk, sig_len }
}

pub fn any_pk() -> u8 {
    let pk = sym::u8();
    sym::assume(pk >= 0x80);
    pk
}

pub fn err_kind(r: &Result<(), Error>) -> u8 {
    match r {
        Ok(()) => 0,
        Err(Error::ExceedsMaxSize) => 1,
        Err(Error::SequenceNumberTooHigh) => 2,
        Err(Error::SigningError) => 3,
        Err(Error::UnsupportedIdentityScheme) => 4,
        Err(Error::InvalidRlpData(_)) => 5,
    }
}

/// which error causes are present for an update whose model result is `want` (pairs after a
/// successful call); used to decide the admissible error kinds
pub struct Causes {
    pub size_first: bool,  // candidate content with the OLD signature and seq exceeds the limit
    pub size_final: bool,  // the finished record (new seq, new signature) exceeds the limit
    pub seq_overflow: bool,
    pub signer_fails: bool,
}

/// Obligations common to every update step that increments the sequence number.
/// `pre`: the pairs before; `want`: the pairs the sorted-map model predicts after success.
#[inline(always)]
pub fn step_obligations(
    e: &Enr<MKey>,
    before: &Snap,
    pre: &Pairs,
    res: &Result<(), Error>,
    signer: &MKey,
    want: &Pairs,
    want_seq: u64,
    causes: &Causes,
    checks_first_size: bool,
) {
    let after = snap(e);
    let kind = err_kind(res);
    let ok = kind == 0;
    let size = e.size();
    let pk_now = e.public_key();
    let carries_signer_key = pk_now.0 == signer.id;
    let nid_from_pk = sym::eq32(&NodeId::from(pk_now).raw(), &after.node_id);
    let pairs_model = pairs_are(e, want);
    let pairs_pre = pairs_are(e, pre);
    let unchanged = same_snap(before, &after) && pairs_pre;
    let want_sig = ref_mac(signer.id, want_seq, want);
    let sig_is_signers = after.sig_len == signer.sig_len as usize && sym::eq_short(&after.sig[..after.sig_len], &want_sig[..after.sig_len]);
    let want_len = ref_record_len(signer.sig_len as usize, want_seq, want);
    let pre_len = ref_record_len(before.sig_len, before.seq, pre);
    let any_size_cause = (checks_first_size && causes.size_first) || causes.size_final;
    vcover!(ok, "update Ok");
    vcover!(kind == 1, "Err(ExceedsMaxSize)");
    vcover!(kind == 2, "Err(SequenceNumberTooHigh)");
    vcover!(kind == 3, "Err(SigningError)");
    vcover!(ok && signer.id != before.node_id[0], "re-keyed");
    // ---- C05: Ok => valid record, re-keyed to the signer
    assert!(!ok || sym::eq32(&after.node_id, &hdigest(&[signer.id])), "C05,C10: after an update the node id is the hash of the signer's public key");
    // "verifies" = this obligation + `a_verify_iff` (verify() accepts exactly records whose signature
    // is the carried key's MAC over their content), see DESIGN.md 4/C05
    assert!(!ok || sig_is_signers, "C05: after an update the signature is the signer's signature over the new content");
    assert!(!ok || carries_signer_key, "C05,C08: after an update the record carries the signer's public key (it verifies under the key it carries)");
    assert!(!ok || size <= MAXSZ, "C05,C09: a successfully updated record fits the size limit");
    // ---- C06: Err => untouched
    assert!(ok || unchanged, "C06,C07,C10: a failed update leaves seq, node id, signature and pairs unchanged");
    assert!(ok || size == pre_len, "C06: a failed update leaves the encoding length unchanged");
    // ---- C07
    assert!(!ok || after.seq == want_seq, "C07: a successful update sets the sequence number to exactly the expected value");
    assert!(!causes.seq_overflow || !ok, "C07: an update at 2^64-1 fails instead of wrapping");
    // ---- C08: pairs are those of the sorted-map model (incl. id = v4 and the signer's key)
    assert!(!ok || pairs_model, "C08: after a successful update the pairs are exactly those of the sorted-map model");
    assert!(kind != 3 || causes.signer_fails, "C08: SigningError is reported only when the signer failed");
    assert!(kind != 2 || causes.seq_overflow, "C08: SequenceNumberTooHigh is reported only at 2^64-1");
    assert!(kind != 1 || any_size_cause, "C09: an update is refused for size only when its result would exceed the limit");
    assert!(ok || causes.signer_fails || causes.seq_overflow || any_size_cause || kind == 4 || kind == 5,
            "C08: an update fails only for a cause that is present");
    // ---- C09
    assert!(!ok || size == want_len, "C09: size() equals the length of the encoding predicted from the parts");
    assert!(!causes.size_final || !ok, "C09: an update whose result exceeds the limit is refused");
    assert!(size <= MAXSZ, "C09: no record handed out exceeds the size limit");
    // ---- C10
    assert!(nid_from_pk, "C10: node id equals the id derived from the public-key accessor");
    assert!(!ok || signer.id != before.node_id[0] || sym::eq32(&after.node_id, &before.node_id),
            "C10: an update with the same key does not change the node id");
}

pub fn causes_for(pre_sig_len: usize, seq: u64, signer: &MKey, want: &Pairs, bumps_seq: bool, want_seq: u64) -> Causes {
    Causes {
        size_first: ref_record_len(pre_sig_len, seq, want) > MAXSZ,
        size_final: ref_record_len(signer.sig_len as usize, want_seq, want) > MAXSZ,
        seq_overflow: bumps_seq && seq == u64::MAX,
        signer_fails: signer.fail,
    }
}

/// set_tcp4 on {id, k}: typed setter through insert / insert_raw_rlp
#[cfg_attr(kani, kani::proof)]
#[cfg_attr(kani, kani::stub(enr::digest, digest_stub))]
#[cfg_attr(kani, kani::stub(enr::Enr::id, id_stub))]
#[cfg_attr(kani, kani::stub(<[u8]>::to_vec, to_vec_stub))]
pub fn u_set_tcp4() {
    let seq = sym::u64();
    let pk = any_pk();
    let kraw0 = [0x81u8, pk];
    let pre: [(&[u8], &[u8]); 2] = [(b"id", &ID_RAW), (KNAME, &kraw0)];
    let p = pre_state(pk, seq, &pre);
    let mut e = p.e;
    let signer = any_key();
    let before = snap(&e);
    let port = sym::u16();
    let r = e.set_tcp4(port, &signer);
    let (pe, pn) = ref_port_enc(port);
    let kraw = [0x81u8, signer.id];
    let want: [(&[u8], &[u8]); 3] = [(b"id", &ID_RAW), (KNAME, &kraw), (b"tcp", &pe[..pn])];
    let prev_none = matches!(r, Ok(None)) || r.is_err();
    let res = r.map(|_| ());
    let got_port = e.tcp4();
    let got_raw_ok = e.get_raw_rlp("tcp") == Some(&pe[..pn]);
    let want_seq = seq.wrapping_add(1);
    let causes = causes_for(p.sig_len, seq, &signer, &want, true, want_seq);
    step_obligations(&e, &before, &pre, &res, &signer, &want, want_seq, &causes, true);
    assert!(prev_none, "C08: a setter on an absent key returns no previous value");
    assert!(res.is_err() || got_port == Some(port), "C14: a port set through the typed setter reads back as the value set");
    assert!(res.is_err() || got_raw_ok, "C14: a typed setter stores the canonical encoding");
    assert!(err_kind(&res) != 4 && err_kind(&res) != 5, "C08: a typed setter never reports identity-scheme or RLP errors");
    core::mem::forget(e);
}


/// insert_raw_rlp of a custom key with an arbitrary (possibly malformed) raw value of 0..=3 bytes
#[cfg_attr(kani, kani::proof)]
#[cfg_attr(kani, kani::stub(enr::digest, digest_stub))]
#[cfg_attr(kani, kani::stub(enr::Enr::id, id_stub))]
#[cfg_attr(kani, kani::stub(<[u8]>::to_vec, to_vec_stub))]
pub fn u_insert_raw() {
    let seq = sym::u64();
    let pk = any_pk();
    let kraw0 = [0x81u8, pk];
    let pre: [(&[u8], &[u8]); 2] = [(b"id", &ID_RAW), (KNAME, &kraw0)];
    let p = pre_state(pk, seq, &pre);
    let mut e = p.e;
    let signer = any_key();
    let before = snap(&e);
    let raw: [u8; 3] = sym::bytes::<3>();
    let n = sym::usize();
    sym::assume(n <= 3);
    let valid = ref_single_item(&raw[..n]);
    let r = e.insert_raw_rlp("x", mk_bytes(&raw[..n]), &signer);
    let kraw = [0x81u8, signer.id];
    let want: [(&[u8], &[u8]); 3] = [(b"id", &ID_RAW), (KNAME, &kraw), (b"x", &raw[..n])];
    let prev_none = matches!(r, Ok(None)) || r.is_err();
    let res = r.map(|_| ());
    let kind = err_kind(&res);
    let want_seq = seq.wrapping_add(1);
    let causes = causes_for(p.sig_len, seq, &signer, &want, true, want_seq);
    vcover!(kind == 5, "Err(InvalidRlpData)");
    vcover!(kind == 0 && n == 3, "three-byte raw value stored");
    // C03/C04: the deprecated payload getter must not panic on anything the library stored
    #[allow(deprecated)]
    let g = e.get("x");
    let g_ok = g.is_some() == (kind == 0);
    core::mem::forget(g);
    step_obligations(&e, &before, &pre, &res, &signer, &want, want_seq, &causes, true);
    assert!(prev_none, "C08: an insert on an absent key returns no previous value");
    assert!(valid || kind == 5, "C08: a raw value that is not exactly one RLP item is refused with InvalidRlpData");
    assert!(kind != 5 || !valid, "C08: InvalidRlpData is reported only for a malformed value");
    assert!(kind != 4, "C08: a custom key never reports an identity-scheme error");
    assert!(g_ok, "C04: a stored value is readable through get()");
    core::mem::forget(e);
}

/// set_tcp4 on a record that already has a tcp entry: replaces exactly that value, returns the old one
#[cfg_attr(kani, kani::proof)]
#[cfg_attr(kani, kani::stub(enr::digest, digest_stub))]
#[cfg_attr(kani, kani::stub(enr::Enr::id, id_stub))]
#[cfg_attr(kani, kani::stub(<[u8]>::to_vec, to_vec_stub))]
pub fn u_replace_tcp4() {
    let seq = sym::u64();
    let pk = any_pk();
    let kraw0 = [0x81u8, pk];
    let old = sym::u16();
    let (oe, on) = ref_port_enc(old);
    let pre: [(&[u8], &[u8]); 3] = [(b"id", &ID_RAW), (KNAME, &kraw0), (b"tcp", &oe[..on])];
    let p = pre_state(pk, seq, &pre);
    let mut e = p.e;
    let signer = any_key();
    let before = snap(&e);
    let port = sym::u16();
    let r = e.set_tcp4(port, &signer);
    let (pe, pn) = ref_port_enc(port);
    let kraw = [0x81u8, signer.id];
    let want: [(&[u8], &[u8]); 3] = [(b"id", &ID_RAW), (KNAME, &kraw), (b"tcp", &pe[..pn])];
    let prev_ok = matches!(r, Ok(Some(x)) if x == old) || r.is_err();
    let res = r.map(|_| ());
    let got_port = e.tcp4();
    let want_seq = seq.wrapping_add(1);
    let causes = causes_for(p.sig_len, seq, &signer, &want, true, want_seq);
    step_obligations(&e, &before, &pre, &res, &signer, &want, want_seq, &causes, true);
    assert!(prev_ok, "C08: a typed setter returns the previous value of the key");
    assert!(res.is_err() || got_port == Some(port), "C14: a port set through the typed setter reads back as the value set");
    assert!(res.is_ok() || got_port == Some(old), "C06: a failed setter leaves the old value readable");
    core::mem::forget(e);
}

/// set_seq: sets exactly the requested number, re-keys to the signer, atomic
#[cfg_attr(kani, kani::proof)]
#[cfg_attr(kani, kani::stub(enr::digest, digest_stub))]
#[cfg_attr(kani, kani::stub(enr::Enr::id, id_stub))]
#[cfg_attr(kani, kani::stub(<[u8]>::to_vec, to_vec_stub))]
pub fn u_set_seq() {
    let seq = sym::u64();
    let pk = any_pk();
    let kraw0 = [0x81u8, pk];
    let port = sym::u16();
    let (oe, on) = ref_port_enc(port);
    let pre: [(&[u8], &[u8]); 3] = [(b"id", &ID_RAW), (KNAME, &kraw0), (b"tcp", &oe[..on])];
    let p = pre_state(pk, seq, &pre);
    let mut e = p.e;
    let signer = any_key();
    let before = snap(&e);
    let new_seq = sym::u64();
    let res = e.set_seq(new_seq, &signer);
    let kraw = [0x81u8, signer.id];
    let want: [(&[u8], &[u8]); 3] = [(b"id", &ID_RAW), (KNAME, &kraw), (b"tcp", &oe[..on])];
    let causes = causes_for(p.sig_len, seq, &signer, &want, false, new_seq);
    vcover!(res.is_ok() && new_seq == u64::MAX, "set to 2^64-1");
    vcover!(res.is_ok() && new_seq < seq, "set to a smaller number");
    step_obligations(&e, &before, &pre, &res, &signer, &want, new_seq, &causes, false);
    assert!(err_kind(&res) != 2 && err_kind(&res) != 4 && err_kind(&res) != 5, "C08: set_seq reports only size or signing errors");
    core::mem::forget(e);
}

/// remove_key of a present key
#[cfg_attr(kani, kani::proof)]
#[cfg_attr(kani, kani::stub(enr::digest, digest_stub))]
#[cfg_attr(kani, kani::stub(enr::Enr::id, id_stub))]
#[cfg_attr(kani, kani::stub(<[u8]>::to_vec, to_vec_stub))]
pub fn u_remove_key() {
    let seq = sym::u64();
    let pk = any_pk();
    let kraw0 = [0x81u8, pk];
    let port = sym::u16();
    let (oe, on) = ref_port_enc(port);
    let pre: [(&[u8], &[u8]); 3] = [(b"id", &ID_RAW), (KNAME, &kraw0), (b"tcp", &oe[..on])];
    let p = pre_state(pk, seq, &pre);
    let mut e = p.e;
    let signer = any_key();
    let before = snap(&e);
    let res = e.remove_key("tcp", &signer);
    let kraw = [0x81u8, signer.id];
    let want: [(&[u8], &[u8]); 2] = [(b"id", &ID_RAW), (KNAME, &kraw)];
    let want_seq = seq.wrapping_add(1);
    let causes = causes_for(p.sig_len, seq, &signer, &want, true, want_seq);
    let gone = e.tcp4().is_none();
    step_obligations(&e, &before, &pre, &res, &signer, &want, want_seq, &causes, false);
    assert!(res.is_err() || gone, "C08: a removal deletes the named key");
    assert!(res.is_ok() || !gone, "C06: a failed removal leaves the key in place");
    assert!(err_kind(&res) != 4 && err_kind(&res) != 5, "C08: remove_key reports only size, sequence or signing errors");
    core::mem::forget(e);
}

/// set_udp_socket with an IPv4 address: writes ip and udp only, one sequence-number step
#[cfg_attr(kani, kani::proof)]
#[cfg_attr(kani, kani::stub(enr::digest, digest_stub))]
#[cfg_attr(kani, kani::stub(enr::Enr::id, id_stub))]
#[cfg_attr(kani, kani::stub(<[u8]>::to_vec, to_vec_stub))]
pub fn u_set_udp_socket4() {
    let seq = sym::u64();
    // keeps every candidate encoding (pre-state + ip + udp) within the 40-byte buffer capacity
    sym::assume(seq < (1u64 << 32));
    let pk = any_pk();
    let kraw0 = [0x81u8, pk];
    let pre: [(&[u8], &[u8]); 2] = [(b"id", &ID_RAW), (KNAME, &kraw0)];
    let p = pre_state(pk, seq, &pre);
    let mut e = p.e;
    let signer = any_key();
    let before = snap(&e);
    let ip: [u8; 4] = sym::bytes::<4>();
    let port = sym::u16();
    let sock = std::net::SocketAddr::V4(std::net::SocketAddrV4::new(std::net::Ipv4Addr::from(ip), port));
    let res = e.set_udp_socket(sock, &signer);
    let (pe, pn) = ref_port_enc(port);
    let ipraw = [0x84u8, ip[0], ip[1], ip[2], ip[3]];
    let kraw = [0x81u8, signer.id];
    let want: [(&[u8], &[u8]); 4] = [(b"id", &ID_RAW), (b"ip", &ipraw), (KNAME, &kraw), (b"udp", &pe[..pn])];
    let want_seq = seq.wrapping_add(1);
    let causes = causes_for(p.sig_len, seq, &signer, &want, true, want_seq);
    let sock_back = e.udp4_socket();
    let others_absent = e.tcp4().is_none() && e.ip6().is_none() && e.udp6().is_none() && e.tcp6().is_none();
    step_obligations(&e, &before, &pre, &res, &signer, &want, want_seq, &causes, true);
    assert!(res.is_err() || sock_back == Some(std::net::SocketAddrV4::new(std::net::Ipv4Addr::from(ip), port)),
            "C14: a socket set through the socket setter reads back as the value set");
    assert!(others_absent, "C08: a socket setter writes only its own family's ip and port keys");
    assert!(err_kind(&res) != 4 && err_kind(&res) != 5, "C08: a socket setter reports only size, sequence or signing errors");
    core::mem::forget(e);
}

/// remove_insert: removes tcp, inserts udp with an arbitrary payload of 0..=2 bytes (the API takes
/// payloads and stores them as RLP byte strings); one sequence-number step, returns old values
#[cfg_attr(kani, kani::proof)]
#[cfg_attr(kani, kani::stub(enr::digest, digest_stub))]
#[cfg_attr(kani, kani::stub(enr::Enr::id, id_stub))]
#[cfg_attr(kani, kani::stub(<[u8]>::to_vec, to_vec_stub))]
pub fn u_remove_insert() {
    let seq = sym::u64();
    let pk = any_pk();
    let kraw0 = [0x81u8, pk];
    let old = sym::u16();
    let (oe, on) = ref_port_enc(old);
    let pre: [(&[u8], &[u8]); 3] = [(b"id", &ID_RAW), (KNAME, &kraw0), (b"tcp", &oe[..on])];
    let p = pre_state(pk, seq, &pre);
    let mut e = p.e;
    let signer = any_key();
    let before = snap(&e);
    let pl: [u8; 2] = sym::bytes::<2>();
    let n = sym::usize();
    sym::assume(n <= 2);
    // the payload stored as an RLP byte string
    let mut item = Buf64::new();
    item.put_str(&pl[..n]);
    let item_is_port = ref_port(item.as_slice()).is_some();
    let rm: [&[u8]; 1] = [b"tcp"];
    let ins: [(&[u8], &[u8]); 1] = [(b"udp", &pl[..n])];
    let r = e.remove_insert(rm.iter(), ins.iter().map(|(k, v)| (*k, *v)), &signer);
    let kraw = [0x81u8, signer.id];
    let want: [(&[u8], &[u8]); 3] = [(b"id", &ID_RAW), (KNAME, &kraw), (b"udp", item.as_slice())];
    let ret_ok = match &r {
        Ok((removed, inserted)) => {
            removed.len() == 1 && inserted.len() == 1 && inserted[0].is_none()
                && matches!(&removed[0], Some(b) if b.as_ref() == &oe[..on])
        }
        Err(_) => true,
    };
    let res = r.map(|x| core::mem::forget(x));
    let kind = err_kind(&res);
    let want_seq = seq.wrapping_add(1);
    let causes = causes_for(p.sig_len, seq, &signer, &want, true, want_seq);
    vcover!(kind == 5, "Err(InvalidRlpData)");
    vcover!(kind == 0 && n == 2, "two-byte port inserted");
    step_obligations(&e, &before, &pre, &res, &signer, &want, want_seq, &causes, false);
    assert!(ret_ok, "C08: remove_insert returns the removed and the overwritten values");
    assert!(item_is_port || kind == 5, "C08: an ill-typed value for a reserved key is refused with InvalidRlpData");
    assert!(kind != 5 || !item_is_port, "C08: InvalidRlpData is reported only for an ill-typed value");
    assert!(kind != 4, "C08: remove_insert without an id pair never reports an identity-scheme error");
    core::mem::forget(e);
}

/// set_public_key to an arbitrary key of the scheme, signed by `signer`: the record ends up with
/// the signer's key (setting it to the signer's own key succeeds)
#[cfg_attr(kani, kani::proof)]
#[cfg_attr(kani, kani::stub(enr::digest, digest_stub))]
#[cfg_attr(kani, kani::stub(enr::Enr::id, id_stub))]
#[cfg_attr(kani, kani::stub(<[u8]>::to_vec, to_vec_stub))]
pub fn u_set_public_key() {
    let seq = sym::u64();
    let pk = any_pk();
    let kraw0 = [0x81u8, pk];
    let pre: [(&[u8], &[u8]); 2] = [(b"id", &ID_RAW), (KNAME, &kraw0)];
    let p = pre_state(pk, seq, &pre);
    let mut e = p.e;
    let signer = any_key();
    let before = snap(&e);
    let newpk = MPub(any_pk());
    let res = e.set_public_key(&newpk, &signer);
    let kraw = [0x81u8, signer.id];
    let want: [(&[u8], &[u8]); 2] = [(b"id", &ID_RAW), (KNAME, &kraw)];
    let want_seq = seq.wrapping_add(1);
    let causes = causes_for(p.sig_len, seq, &signer, &want, true, want_seq);
    vcover!(res.is_ok() && newpk.0 == signer.id, "set to the signer's own key");
    step_obligations(&e, &before, &pre, &res, &signer, &want, want_seq, &causes, true);
    assert!(err_kind(&res) != 4 && err_kind(&res) != 5, "C08: setting a valid public key never reports identity-scheme or RLP errors");
    core::mem::forget(e);
}

fn build_kind(r: &Result<Enr<MKey>, Error>) -> u8 {
    match r {
        Ok(_) => 0u8,
        Err(Error::ExceedsMaxSize) => 1,
        Err(Error::SequenceNumberTooHigh) => 2,
        Err(Error::SigningError) => 3,
        Err(Error::UnsupportedIdentityScheme) => 4,
        Err(Error::InvalidRlpData(_)) => 5,
    }
}

/// obligations on the outcome of Builder::build given the pairs the model predicts
#[inline(always)]
fn build_obligations(r: &Result<Enr<MKey>, Error>, signer: &MKey, seq: u64, want: &Pairs, valid: bool) {
    let content_len = ref_content_len(seq, want);
    let full_len = ref_record_len(signer.sig_len as usize, seq, want);
    let kind = build_kind(r);
    let ok = kind == 0;
    vcover!(ok, "build Ok");
    vcover!(kind == 1, "Err(ExceedsMaxSize)");
    vcover!(kind == 3, "Err(SigningError)");
    if let Ok(e) = r {
        let s = snap(e);
        let size = e.size();
        let pairs_model = pairs_are(e, want);
        let want_sig = ref_mac(signer.id, seq, want);
        let sig_ok = s.sig_len == signer.sig_len as usize && sym::eq_short(&s.sig[..s.sig_len], &want_sig[..s.sig_len]);
        let nid = sym::eq32(&s.node_id, &hdigest(&[signer.id]));
        let nid_pk = sym::eq32(&NodeId::from(e.public_key()).raw(), &s.node_id);
        assert!(pairs_model, "C08: a built record holds the builder's pairs plus id=v4 and the signer's public key");
        assert!(sig_ok, "C05: a built record carries the signer's signature over its content");
        assert!(nid, "C05,C10: the node id of a built record is the hash of the signer's public key");
        assert!(nid_pk, "C10: node id equals the id derived from the public-key accessor");
        assert!(s.seq == seq, "C07: a built record has exactly the requested sequence number");
        assert!(size == full_len, "C09: size() equals the length of the encoding predicted from the parts");
        assert!(size <= MAXSZ, "C09: no record handed out exceeds the size limit");
        assert!(valid, "C05: the builder refuses raw values that are not exactly one RLP item");
    }
    assert!(kind != 5 || !valid, "C08: InvalidRlpData is reported only for a malformed value");
    assert!(valid || kind == 5, "C08: a raw value that is not exactly one RLP item is refused with InvalidRlpData");
    assert!(kind != 3 || signer.fail, "C08: SigningError is reported only when the signer failed");
    assert!(kind != 2 && kind != 4, "C08: the v4 builder reports neither sequence nor identity-scheme errors");
    // size rule of the builder: refuses everything above the limit, may refuse within 8 bytes of it
    assert!(!(full_len > MAXSZ) || !ok, "C09: the builder refuses every result above the limit");
    assert!(kind != 1 || content_len + signer.sig_len as usize + 8 > MAXSZ, "C09: the builder refuses for size only by its documented rule (content + signature + 8 > limit)");
    assert!(kind != 1 || full_len + 8 > MAXSZ, "C09: the builder never refuses a result more than 8 bytes below the limit");
    assert!(ok || signer.fail || !valid || kind == 1, "C08: a build fails only for a cause that is present");
}

/// Builder: any seq, tcp4(any port), build with a symbolic signer
#[cfg_attr(kani, kani::proof)]
#[cfg_attr(kani, kani::stub(enr::digest, digest_stub))]
#[cfg_attr(kani, kani::stub(enr::Enr::id, id_stub))]
#[cfg_attr(kani, kani::stub(<[u8]>::to_vec, to_vec_stub))]
pub fn u_build() {
    let seq = sym::u64();
    let signer = any_key();
    let port = sym::u16();
    let mut b = Enr::<MKey>::builder();
    b.seq(seq);
    b.tcp4(port);
    let r = b.build(&signer);
    core::mem::forget(b);
    let (pe, pn) = ref_port_enc(port);
    let kraw = [0x81u8, signer.id];
    let want: [(&[u8], &[u8]); 3] = [(b"id", &ID_RAW), (KNAME, &kraw), (b"tcp", &pe[..pn])];
    let tcp_back = match &r { Ok(e) => e.tcp4(), Err(_) => Some(port) };
    build_obligations(&r, &signer, seq, &want, true);
    assert!(tcp_back == Some(port), "C14: a port given to the builder reads back as the value set");
    core::mem::forget(r);
}

/// Builder: any seq, one raw custom value of 0..=3 arbitrary (possibly malformed) bytes
#[cfg_attr(kani, kani::proof)]
#[cfg_attr(kani, kani::stub(enr::digest, digest_stub))]
#[cfg_attr(kani, kani::stub(enr::Enr::id, id_stub))]
#[cfg_attr(kani, kani::stub(<[u8]>::to_vec, to_vec_stub))]
pub fn u_build_raw() {
    let seq = sym::u64();
    let signer = any_key();
    let raw: [u8; 3] = sym::bytes::<3>();
    let n = sym::usize();
    sym::assume(n <= 3);
    let valid = ref_single_item(&raw[..n]);
    let mut b = Enr::<MKey>::builder();
    b.seq(seq);
    b.add_value_rlp("x", mk_bytes(&raw[..n]));
    let r = b.build(&signer);
    core::mem::forget(b);
    let kraw = [0x81u8, signer.id];
    let want: [(&[u8], &[u8]); 3] = [(b"id", &ID_RAW), (KNAME, &kraw), (b"x", &raw[..n])];
    vcover!(build_kind(&r) == 5, "Err(InvalidRlpData)");
    build_obligations(&r, &signer, seq, &want, valid);
    core::mem::forget(r);
}

/// remove_key of a key that is ABSENT: still one content update (sequence number +1, re-signed),
/// and at 2^64-1 it fails like every other update
#[cfg_attr(kani, kani::proof)]
#[cfg_attr(kani, kani::stub(enr::digest, digest_stub))]
#[cfg_attr(kani, kani::stub(enr::Enr::id, id_stub))]
#[cfg_attr(kani, kani::stub(<[u8]>::to_vec, to_vec_stub))]
pub fn u_remove_absent() {
    let seq = sym::u64();
    let pk = any_pk();
    let kraw0 = [0x81u8, pk];
    let port = sym::u16();
    let (oe, on) = ref_port_enc(port);
    let pre: [(&[u8], &[u8]); 3] = [(b"id", &ID_RAW), (KNAME, &kraw0), (b"tcp", &oe[..on])];
    let p = pre_state(pk, seq, &pre);
    let mut e = p.e;
    let signer = any_key();
    let before = snap(&e);
    let res = e.remove_key("udp", &signer);
    let kraw = [0x81u8, signer.id];
    let want: [(&[u8], &[u8]); 3] = [(b"id", &ID_RAW), (KNAME, &kraw), (b"tcp", &oe[..on])];
    let want_seq = seq.wrapping_add(1);
    let causes = causes_for(p.sig_len, seq, &signer, &want, true, want_seq);
    step_obligations(&e, &before, &pre, &res, &signer, &want, want_seq, &causes, false);
    assert!(err_kind(&res) != 4 && err_kind(&res) != 5, "C08: remove_key reports only size, sequence or signing errors");
    core::mem::forget(e);
}

/// set_udp_socket with an IPv6 address: writes ip6 and udp6 only (buffers of 56 bytes, limit 48)
#[cfg_attr(kani, kani::proof)]
#[cfg_attr(kani, kani::stub(enr::digest, digest_stub))]
#[cfg_attr(kani, kani::stub(enr::Enr::id, id_stub))]
#[cfg_attr(kani, kani::stub(<[u8]>::to_vec, to_vec_stub))]
pub fn u_set_udp_socket6() {
    let seq = sym::u64();
    sym::assume(seq < (1u64 << 16));
    let pk = any_pk();
    let kraw0 = [0x81u8, pk];
    let pre: [(&[u8], &[u8]); 2] = [(b"id", &ID_RAW), (KNAME, &kraw0)];
    let p = pre_state(pk, seq, &pre);
    let mut e = p.e;
    let signer = any_key();
    let before = snap(&e);
    let mut ip = [0u8; 16];
    ip[0] = sym::u8();
    ip[7] = sym::u8();
    ip[15] = sym::u8();
    let port = sym::u16();
    let sock = std::net::SocketAddr::V6(std::net::SocketAddrV6::new(std::net::Ipv6Addr::from(ip), port, 0, 0));
    let res = e.set_udp_socket(sock, &signer);
    let (pe, pn) = ref_port_enc(port);
    let mut ipraw = [0u8; 17];
    ipraw[0] = 0x90;
    ipraw[1..].copy_from_slice(&ip);
    let kraw = [0x81u8, signer.id];
    let want: [(&[u8], &[u8]); 4] = [(b"id", &ID_RAW), (b"ip6", &ipraw), (KNAME, &kraw), (b"udp6", &pe[..pn])];
    let want_seq = seq.wrapping_add(1);
    let causes = causes_for(p.sig_len, seq, &signer, &want, true, want_seq);
    let sock_back = e.udp6_socket();
    let others_absent = e.tcp4().is_none() && e.ip4().is_none() && e.udp4().is_none() && e.tcp6().is_none();
    step_obligations(&e, &before, &pre, &res, &signer, &want, want_seq, &causes, true);
    assert!(res.is_err() || sock_back == Some(std::net::SocketAddrV6::new(std::net::Ipv6Addr::from(ip), port, 0, 0)),
            "C14: a socket set through the socket setter reads back as the value set");
    assert!(others_absent, "C08: a socket setter writes only its own family's ip and port keys");
    core::mem::forget(e);
}

/// set_tcp_socket with an IPv4 address on a record that already has udp: writes ip and tcp only
#[cfg_attr(kani, kani::proof)]
#[cfg_attr(kani, kani::stub(enr::digest, digest_stub))]
#[cfg_attr(kani, kani::stub(enr::Enr::id, id_stub))]
#[cfg_attr(kani, kani::stub(<[u8]>::to_vec, to_vec_stub))]
pub fn u_set_tcp_socket4() {
    let seq = sym::u64();
    sym::assume(seq < (1u64 << 32));
    let pk = any_pk();
    let kraw0 = [0x81u8, pk];
    let pre: [(&[u8], &[u8]); 2] = [(b"id", &ID_RAW), (KNAME, &kraw0)];
    let p = pre_state(pk, seq, &pre);
    let mut e = p.e;
    let signer = any_key();
    let before = snap(&e);
    let ip: [u8; 4] = sym::bytes::<4>();
    let port = sym::u16();
    let sock = std::net::SocketAddr::V4(std::net::SocketAddrV4::new(std::net::Ipv4Addr::from(ip), port));
    let res = e.set_tcp_socket(sock, &signer);
    let (pe, pn) = ref_port_enc(port);
    let ipraw = [0x84u8, ip[0], ip[1], ip[2], ip[3]];
    let kraw = [0x81u8, signer.id];
    let want: [(&[u8], &[u8]); 4] = [(b"id", &ID_RAW), (b"ip", &ipraw), (KNAME, &kraw), (b"tcp", &pe[..pn])];
    let want_seq = seq.wrapping_add(1);
    let causes = causes_for(p.sig_len, seq, &signer, &want, true, want_seq);
    let sock_back = e.tcp4_socket();
    let others_absent = e.udp4().is_none() && e.ip6().is_none() && e.udp6().is_none() && e.tcp6().is_none();
    step_obligations(&e, &before, &pre, &res, &signer, &want, want_seq, &causes, true);
    assert!(res.is_err() || sock_back == Some(std::net::SocketAddrV4::new(std::net::Ipv4Addr::from(ip), port)),
            "C14: a socket set through the socket setter reads back as the value set");
    assert!(others_absent, "C08: a socket setter writes only its own family's ip and port keys");
    core::mem::forget(e);
}

/// remove_insert that names the PUBLIC-KEY entry: removing "k" (`remove`) or inserting ("k", another
/// key) must still leave the record keyed and signed by the signer (the signer's key is applied last)
#[inline(always)]
fn remove_insert_key_body(remove: bool) {
    let seq = sym::u64();
    let pk = any_pk();
    let kraw0 = [0x81u8, pk];
    let pre: [(&[u8], &[u8]); 2] = [(b"id", &ID_RAW), (KNAME, &kraw0)];
    let p = pre_state(pk, seq, &pre);
    let mut e = p.e;
    let signer = any_key();
    let before = snap(&e);
    let other = any_pk();
    let ov = [other];
    let r = if remove {
        let rm: [&[u8]; 1] = [KNAME];
        e.remove_insert(rm.iter(), std::iter::empty::<(&[u8], &[u8])>(), &signer)
    } else {
        let ins: [(&[u8], &[u8]); 1] = [(KNAME, &ov)];
        e.remove_insert(std::iter::empty::<&[u8]>(), ins.iter().map(|(k, v)| (*k, *v)), &signer)
    };
    let kraw = [0x81u8, signer.id];
    let want: [(&[u8], &[u8]); 2] = [(b"id", &ID_RAW), (KNAME, &kraw)];
    let res = r.map(|x| core::mem::forget(x));
    let want_seq = seq.wrapping_add(1);
    let causes = causes_for(p.sig_len, seq, &signer, &want, true, want_seq);
    let pk_after = e.public_key().0;
    step_obligations(&e, &before, &pre, &res, &signer, &want, want_seq, &causes, false);
    assert!(res.is_err() || pk_after == signer.id, "C05: after an update the record carries the signer's public key");
    assert!(res.is_ok() || pk_after == pk, "C06: a failed update leaves the public key in place");
    core::mem::forget(e);
}
#[cfg_attr(kani, kani::proof)]
#[cfg_attr(kani, kani::stub(enr::digest, digest_stub))]
#[cfg_attr(kani, kani::stub(enr::Enr::id, id_stub))]
#[cfg_attr(kani, kani::stub(<[u8]>::to_vec, to_vec_stub))]
pub fn u_remove_insert_key_rm() {
    remove_insert_key_body(true)
}
#[cfg_attr(kani, kani::proof)]
#[cfg_attr(kani, kani::stub(enr::digest, digest_stub))]
#[cfg_attr(kani, kani::stub(enr::Enr::id, id_stub))]
#[cfg_attr(kani, kani::stub(<[u8]>::to_vec, to_vec_stub))]
pub fn u_remove_insert_key_ins() {
    remove_insert_key_body(false)
}

/// remove_insert touching the SAME key in the remove list and in the insert pairs (replace idiom):
/// removed = [old], inserted = [None]
#[cfg_attr(kani, kani::proof)]
#[cfg_attr(kani, kani::stub(enr::digest, digest_stub))]
#[cfg_attr(kani, kani::stub(enr::Enr::id, id_stub))]
#[cfg_attr(kani, kani::stub(<[u8]>::to_vec, to_vec_stub))]
pub fn u_remove_insert_same() {
    let seq = sym::u64();
    let pk = any_pk();
    let kraw0 = [0x81u8, pk];
    let old = sym::u16();
    let (oe, on) = ref_port_enc(old);
    let pre: [(&[u8], &[u8]); 3] = [(b"id", &ID_RAW), (KNAME, &kraw0), (b"tcp", &oe[..on])];
    let p = pre_state(pk, seq, &pre);
    let mut e = p.e;
    let signer = any_key();
    let before = snap(&e);
    let newp = sym::u16();
    sym::assume(newp >= 256);
    let pl = [(newp >> 8) as u8, newp as u8];
    let (ne, nn) = ref_port_enc(newp);
    let rm: [&[u8]; 1] = [b"tcp"];
    let ins: [(&[u8], &[u8]); 1] = [(b"tcp", &pl)];
    let r = e.remove_insert(rm.iter(), ins.iter().map(|(k, v)| (*k, *v)), &signer);
    let kraw = [0x81u8, signer.id];
    let want: [(&[u8], &[u8]); 3] = [(b"id", &ID_RAW), (KNAME, &kraw), (b"tcp", &ne[..nn])];
    let ret_ok = match &r {
        Ok((removed, inserted)) => {
            removed.len() == 1 && inserted.len() == 1 && inserted[0].is_none()
                && matches!(&removed[0], Some(b) if b.as_ref() == &oe[..on])
        }
        Err(_) => true,
    };
    let res = r.map(|x| core::mem::forget(x));
    let want_seq = seq.wrapping_add(1);
    let causes = causes_for(p.sig_len, seq, &signer, &want, true, want_seq);
    step_obligations(&e, &before, &pre, &res, &signer, &want, want_seq, &causes, false);
    assert!(ret_ok, "C08: remove_insert returns the removed value and, for a key it removed first, no overwritten value");
    core::mem::forget(e);
}

/// set_ip with an IPv4 address on {id,k}
#[cfg_attr(kani, kani::proof)]
#[cfg_attr(kani, kani::stub(enr::digest, digest_stub))]
#[cfg_attr(kani, kani::stub(enr::Enr::id, id_stub))]
#[cfg_attr(kani, kani::stub(<[u8]>::to_vec, to_vec_stub))]
pub fn u_set_ip4() {
    let seq = sym::u64();
    let pk = any_pk();
    let kraw0 = [0x81u8, pk];
    let pre: [(&[u8], &[u8]); 2] = [(b"id", &ID_RAW), (KNAME, &kraw0)];
    let p = pre_state(pk, seq, &pre);
    let mut e = p.e;
    let signer = any_key();
    let before = snap(&e);
    let ip: [u8; 4] = sym::bytes::<4>();
    let r = e.set_ip(std::net::IpAddr::V4(std::net::Ipv4Addr::from(ip)), &signer);
    let ipraw = [0x84u8, ip[0], ip[1], ip[2], ip[3]];
    let kraw = [0x81u8, signer.id];
    let want: [(&[u8], &[u8]); 3] = [(b"id", &ID_RAW), (b"ip", &ipraw), (KNAME, &kraw)];
    let prev_none = matches!(r, Ok(None)) || r.is_err();
    let res = r.map(|_| ());
    let want_seq = seq.wrapping_add(1);
    let causes = causes_for(p.sig_len, seq, &signer, &want, true, want_seq);
    let back = e.ip4();
    let no6 = e.ip6().is_none();
    step_obligations(&e, &before, &pre, &res, &signer, &want, want_seq, &causes, true);
    assert!(prev_none, "C08: a setter on an absent key returns no previous value");
    assert!(res.is_err() || back == Some(std::net::Ipv4Addr::from(ip)), "C14: an address set through set_ip reads back as the value set");
    assert!(no6, "C08: set_ip with an IPv4 address does not touch ip6");
    core::mem::forget(e);
}

/// set_ip with an IPv6 address on {id,k} (incl. IPv4-mapped addresses): stored as 16 bytes under ip6
#[cfg_attr(kani, kani::proof)]
#[cfg_attr(kani, kani::stub(enr::digest, digest_stub))]
#[cfg_attr(kani, kani::stub(enr::Enr::id, id_stub))]
#[cfg_attr(kani, kani::stub(<[u8]>::to_vec, to_vec_stub))]
pub fn u_set_ip6() {
    let seq = sym::u64();
    sym::assume(seq < (1u64 << 16));
    let pk = any_pk();
    let kraw0 = [0x81u8, pk];
    let pre: [(&[u8], &[u8]); 2] = [(b"id", &ID_RAW), (KNAME, &kraw0)];
    let p = pre_state(pk, seq, &pre);
    let mut e = p.e;
    let signer = any_key();
    let before = snap(&e);
    let mut ip = [0u8; 16];
    // ::ffff:a.b.c.d (IPv4-mapped) or an arbitrary first/last byte
    let mapped = sym::bool();
    let first = sym::u8();
    if mapped {
        ip[10] = 0xff;
        ip[11] = 0xff;
    } else {
        ip[0] = first;
    }
    ip[12] = sym::u8();
    ip[15] = sym::u8();
    let r = e.set_ip(std::net::IpAddr::V6(std::net::Ipv6Addr::from(ip)), &signer);
    let mut ipraw = [0u8; 17];
    ipraw[0] = 0x90;
    ipraw[1..].copy_from_slice(&ip);
    let kraw = [0x81u8, signer.id];
    let want: [(&[u8], &[u8]); 3] = [(b"id", &ID_RAW), (b"ip6", &ipraw), (KNAME, &kraw)];
    let res = r.map(|_| ());
    let want_seq = seq.wrapping_add(1);
    let causes = causes_for(p.sig_len, seq, &signer, &want, true, want_seq);
    let back = e.ip6();
    let no4 = e.ip4().is_none();
    vcover!(res.is_ok() && mapped, "IPv4-mapped address stored");
    step_obligations(&e, &before, &pre, &res, &signer, &want, want_seq, &causes, true);
    assert!(res.is_err() || back == Some(std::net::Ipv6Addr::from(ip)), "C14: an address set through set_ip reads back as the value set");
    assert!(no4, "C08: set_ip with an IPv6 address does not touch ip");
    core::mem::forget(e);
}
