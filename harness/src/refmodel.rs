//! Reference models (oracles) written from EIP-778 / the property statements, never from lib.rs.
//! Loop-free or constant-bound.

/// Header of the RLP item at the start of `b`, canonical forms only, payload < 56 bytes:
/// Some((is_list, header_len, payload_len)) iff a complete canonical item starts here.
pub fn ref_item(b: &[u8]) -> Option<(bool, usize, usize)> {
    if b.is_empty() {
        return None;
    }
    let c = b[0];
    let (list, hl, pl) = if c < 0x80 {
        (false, 0usize, 1usize)
    } else if c <= 0xb7 {
        (false, 1, (c - 0x80) as usize)
    } else if c < 0xc0 {
        return None; // long string form: payload >= 56 is outside every bound used here
    } else if c <= 0xf7 {
        (true, 1, (c - 0xc0) as usize)
    } else {
        return None;
    };
    if b.len() < hl + pl {
        return None;
    }
    if !list && hl == 1 && pl == 1 && b[1] < 0x80 {
        return None; // single byte below 0x80 must be encoded as itself
    }
    Some((list, hl, pl))
}

/// `raw` is exactly one canonical RLP item
pub fn ref_single_item(raw: &[u8]) -> bool {
    match ref_item(raw) {
        Some((_, hl, pl)) => hl + pl == raw.len(),
        None => false,
    }
}

/// canonical integer below 2^16 stored as exactly one item
pub fn ref_port(raw: &[u8]) -> Option<u16> {
    match raw.len() {
        1 => {
            if raw[0] < 0x80 && raw[0] != 0 {
                Some(raw[0] as u16)
            } else if raw[0] == 0x80 {
                Some(0)
            } else {
                None
            }
        }
        2 => {
            if raw[0] == 0x81 && raw[1] >= 0x80 {
                Some(raw[1] as u16)
            } else {
                None
            }
        }
        3 => {
            if raw[0] == 0x82 && raw[1] != 0 {
                Some(((raw[1] as u16) << 8) | raw[2] as u16)
            } else {
                None
            }
        }
        _ => None,
    }
}

/// canonical RLP encoding of a port: (bytes, length)
pub fn ref_port_enc(p: u16) -> ([u8; 3], usize) {
    if p == 0 {
        ([0x80, 0, 0], 1)
    } else if p < 0x80 {
        ([p as u8, 0, 0], 1)
    } else if p < 0x100 {
        ([0x81, p as u8, 0], 2)
    } else {
        ([0x82, (p >> 8) as u8, p as u8], 3)
    }
}

pub fn ref_ip4(raw: &[u8]) -> Option<[u8; 4]> {
    if raw.len() == 5 && raw[0] == 0x84 {
        Some([raw[1], raw[2], raw[3], raw[4]])
    } else {
        None
    }
}

pub fn ref_ip6(raw: &[u8]) -> Option<[u8; 16]> {
    if raw.len() == 17 && raw[0] == 0x90 {
        let mut o = [0u8; 16];
        o.copy_from_slice(&raw[1..17]);
        Some(o)
    } else {
        None
    }
}

/// canonical u64: (value) from the payload of a string item of `pl` bytes at b[off..]
pub fn ref_u64_item(b: &[u8]) -> Option<(u64, usize)> {
    let (list, hl, pl) = ref_item(b)?;
    if list || pl > 8 {
        return None;
    }
    if pl == 0 {
        return Some((0, hl + pl));
    }
    if b[hl] == 0 {
        return None; // leading zero
    }
    let mut v: u64 = 0;
    rep8!(|i: usize| if i < pl {
        v = (v << 8) | b[hl + i] as u64;
    });
    Some((v, hl + pl))
}

/// minimal big-endian length of a u64 (0 for 0)
pub fn be_len(v: u64) -> usize {
    (64 - v.leading_zeros() as usize + 7) / 8
}

/// length of the canonical RLP encoding of a u64
pub fn ref_u64_len(v: u64) -> usize {
    if v < 0x80 {
        1
    } else {
        1 + be_len(v)
    }
}

/// canonical RLP encoding of a u64 into out[..n]
pub fn ref_u64_enc(v: u64) -> ([u8; 9], usize) {
    let mut o = [0u8; 9];
    if v == 0 {
        o[0] = 0x80;
        return (o, 1);
    }
    if v < 0x80 {
        o[0] = v as u8;
        return (o, 1);
    }
    let n = be_len(v);
    o[0] = 0x80 + n as u8;
    let be = v.to_be_bytes();
    rep8!(|i: usize| if i < n {
        o[1 + i] = be[8 - n + i];
    });
    (o, 1 + n)
}

/// like `ref_item` but without the single-byte canonicity rule (one complete item, any header form
/// within the short range)
pub fn ref_item_loose(b: &[u8]) -> Option<(bool, usize, usize)> {
    if b.is_empty() {
        return None;
    }
    let c = b[0];
    let (list, hl, pl) = if c < 0x80 {
        (false, 0usize, 1usize)
    } else if c <= 0xb7 {
        (false, 1, (c - 0x80) as usize)
    } else if c < 0xc0 {
        return None;
    } else if c <= 0xf7 {
        (true, 1, (c - 0xc0) as usize)
    } else {
        return None;
    };
    if b.len() < hl + pl {
        return None;
    }
    Some((list, hl, pl))
}
pub fn ref_one_item_loose(raw: &[u8]) -> bool {
    match ref_item_loose(raw) {
        Some((_, hl, pl)) => hl + pl == raw.len(),
        None => false,
    }
}

/// fixed 64-byte output buffer of the reference encoder
#[derive(Clone, Copy)]
pub struct Buf64 {
    pub b: [u8; 64],
    pub n: usize,
}
impl Buf64 {
    pub fn new() -> Self {
        Buf64 { b: [0; 64], n: 0 }
    }
    pub fn put(&mut self, s: &[u8]) {
        let l = s.len();
        assert!(self.n + l <= 64, "harness bound: reference encoding longer than 64 bytes");
        self.b[self.n..self.n + l].copy_from_slice(s);
        self.n += l;
    }
    pub fn put1(&mut self, x: u8) {
        assert!(self.n < 64, "harness bound: reference encoding longer than 64 bytes");
        self.b[self.n] = x;
        self.n += 1;
    }
    /// byte string item (payload < 56 bytes)
    pub fn put_str(&mut self, s: &[u8]) {
        if s.len() == 1 && s[0] < 0x80 {
            self.put1(s[0]);
        } else {
            assert!(s.len() < 56, "harness bound: string item >= 56 bytes");
            self.put1(0x80 + s.len() as u8);
            self.put(s);
        }
    }
    pub fn put_u64(&mut self, v: u64) {
        let (e, n) = ref_u64_enc(v);
        self.put(&e[..n]);
    }
    pub fn as_slice(&self) -> &[u8] {
        &self.b[..self.n]
    }
}

/// length of the list header for a payload of `n` bytes
pub fn list_hdr_len(n: usize) -> usize {
    if n < 56 {
        1
    } else if n < 256 {
        2
    } else {
        3
    }
}

/// EIP-778 content list: [seq, k1, v1, ...] with values given as raw RLP; `sig` prepended when Some
pub fn ref_encode(sig: Option<&[u8]>, seq: u64, pairs: &[(&[u8], &[u8])]) -> Buf64 {
    let mut body = Buf64::new();
    if let Some(s) = sig {
        body.put_str(s);
    }
    body.put_u64(seq);
    rep6!(|i: usize| if i < pairs.len() {
        body.put_str(pairs[i].0);
        body.put(pairs[i].1);
    });
    let mut out = Buf64::new();
    if body.n < 56 {
        out.put1(0xc0 + body.n as u8);
    } else {
        out.put1(0xf8);
        out.put1(body.n as u8);
    }
    out.put(&body.b[..body.n]);
    out
}
