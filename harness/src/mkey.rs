//! `MKey`: the model identity scheme the generic record layer (`Enr<K>`, `Builder<K>`) is
//! instantiated with (DESIGN.md 2.3). A custom scheme in the sense of the properties: one-byte
//! public keys stored under the key name "k", variable-length signatures, a signer that can fail.
//!
//! * public key `p` in 0x80..=0xff, stored as the RLP item `81 p` (concrete header byte)
//! * `sign_v4` fails iff `fail`; otherwise returns `sig_len` (3..=6) bytes
//! * signature semantics are selected per harness through `SIGMODE`:
//!   ORACLE  - `verify_v4` is an uninterpreted predicate: it logs what it was asked and returns the
//!             symbolic answer `V_RET`
//!   MAC     - sig = [id, len(msg), msg[1], msg[last], 0x55, 0x55][..sig_len], verified by
//!             recomputation (total, cheap, not collision free: can make a harness miss, never alarm)
use crate::verif_types::BTreeMap;
use alloy_rlp::Error as DecoderError;
use bytes::Bytes;
use enr::{EnrKey, EnrPublicKey, SigningError};

pub const ORACLE: u8 = 0;
pub const MAC: u8 = 1;

pub static mut SIGMODE: u8 = MAC;

// ---- ghost state of the ORACLE verifier (what it was asked, on the LAST call) ----
pub static mut V_CALLS: u32 = 0;
pub static mut V_RET: bool = false;
pub static mut V_PUB: u8 = 0;
pub static mut V_SIG: [u8; 4] = [0; 4];
pub static mut V_SIG_LEN: usize = 0;
pub static mut V_MSG_LEN: usize = 0;
/// sampled bytes of the message: msg[0], msg[1], msg[n-1] (few reads on purpose, see `mac4`)
pub static mut V_MSG_0: u8 = 0;
pub static mut V_MSG_1: u8 = 0;
pub static mut V_MSG_LAST: u8 = 0;
// ---- ghost state of the signer ----
pub static mut S_CALLS: u32 = 0;

pub const KNAME: &[u8] = b"k";

#[derive(Clone, Debug, PartialEq, Eq)]
pub struct MPub(pub u8);

pub struct MKey {
    pub id: u8,
    pub fail: bool,
    pub sig_len: u8,
}

/// MAC of the model scheme: [key id, len(msg), msg[1], msg[n-1]] - the signer, the length of the
/// signed content, the first byte of the sequence-number item and the last byte of the last value.
/// Deliberately few reads: every read of an encoded buffer joins CBMC's array-theory index sets
/// of all buffers it was copied from, and the constraints grow quadratically (measured: `verify()`
/// or one byte of `encode()` read after an update step exhausts 40 GB). Not collision free: it can
/// make a harness miss a stale signature over content of the same length, seq and tail; never alarm.
pub const MSG_MAX: usize = 48;
#[inline(always)]
pub fn mac4(id: u8, msg: &[u8]) -> [u8; 4] {
    let n = msg.len();
    assert!(n <= MSG_MAX, "harness bound: signed message longer than MSG_MAX");
    if n < 2 {
        return [id, n as u8, 0, 0];
    }
    [id, n as u8, msg[1], msg[n - 1]]
}

/// order-independent fold of a byte string: (xor, sum, length)
#[derive(Clone, Copy)]
pub struct Fold {
    pub x: u8,
    pub s: u8,
    pub n: usize,
}
impl Fold {
    pub fn new() -> Self {
        Fold { x: 0, s: 0, n: 0 }
    }
    pub fn byte(&mut self, b: u8) {
        self.x ^= b;
        self.s = self.s.wrapping_add(b);
        self.n += 1;
    }
    /// constant-bound loop over at most 20 bytes
    pub fn bytes(&mut self, v: &[u8]) {
        assert!(v.len() <= 20, "harness bound: Fold::bytes longer than 20");
        rep20!(|i: usize| if i < v.len() {
            self.byte(v[i]);
        });
    }
    /// RLP byte-string item
    pub fn str_item(&mut self, v: &[u8]) {
        if !(v.len() == 1 && v[0] < 0x80) {
            self.byte(0x80 + v.len() as u8);
        }
        self.bytes(v);
    }
    pub fn u64_item(&mut self, v: u64) {
        let (e, n) = crate::refmodel::ref_u64_enc(v);
        self.bytes(&e[..n]);
    }
}

/// fold of the EIP-778 content list [seq, k1, v1, ...] (values raw RLP), including its list header
pub fn fold_content(seq: u64, pairs: &[(&[u8], &[u8])]) -> Fold {
    let mut f = Fold::new();
    f.u64_item(seq);
    rep6!(|i: usize| if i < pairs.len() {
        f.str_item(pairs[i].0);
        f.bytes(pairs[i].1);
    });
    assert!(f.n < 56, "harness bound: content payload >= 56 bytes");
    let h = 0xc0 + f.n as u8;
    f.byte(h);
    f
}

/// the MAC of `id` over the content list [seq, pairs...], computed from the parts (no buffer)
pub fn ref_mac(id: u8, seq: u64, pairs: &[(&[u8], &[u8])]) -> [u8; 6] {
    let n = ref_content_len(seq, pairs);
    let (se, _) = crate::refmodel::ref_u64_enc(seq);
    // last byte of the message: last byte of the last value (pairs is never empty here)
    let lastv = pairs[pairs.len() - 1].1;
    let last = if lastv.is_empty() { 0 } else { lastv[lastv.len() - 1] };
    [id, n as u8, se[0], last, 0x55, 0x55]
}

/// length of the content list encoding [seq, pairs...] (what is signed)
pub fn ref_content_len(seq: u64, pairs: &[(&[u8], &[u8])]) -> usize {
    let mut n = crate::refmodel::ref_u64_len(seq);
    rep6!(|i: usize| if i < pairs.len() {
        let k = pairs[i].0;
        n += if k.len() == 1 && k[0] < 0x80 { 1 } else { 1 + k.len() };
        n += pairs[i].1.len();
    });
    n + crate::refmodel::list_hdr_len(n)
}

/// length of the full record encoding [sig, seq, pairs...] computed from the parts
pub fn ref_record_len(sig_len: usize, seq: u64, pairs: &[(&[u8], &[u8])]) -> usize {
    let mut n = 1 + sig_len; // signatures here are 2..=55 bytes: one header byte
    n += crate::refmodel::ref_u64_len(seq);
    rep6!(|i: usize| if i < pairs.len() {
        let k = pairs[i].0;
        n += if k.len() == 1 && k[0] < 0x80 { 1 } else { 1 + k.len() };
        n += pairs[i].1.len();
    });
    n + crate::refmodel::list_hdr_len(n)
}

impl EnrKey for MKey {
    type PublicKey = MPub;
    fn sign_v4(&self, msg: &[u8]) -> Result<Vec<u8>, SigningError> {
        unsafe {
            S_CALLS += 1;
        }
        if self.fail {
            return Err(enr::verif_signing_error());
        }
        let m = mac4(self.id, msg);
        let full = [m[0], m[1], m[2], m[3], 0x55, 0x55];
        let n = self.sig_len as usize;
        assert!(n >= 3 && n <= 6, "harness bound: sig_len in 3..=6");
        // fixed-capacity allocation, symbolic length (no symbolic-size malloc)
        let mut v: Vec<u8> = Vec::with_capacity(8);
        unsafe {
            core::ptr::copy_nonoverlapping(full.as_ptr(), v.as_mut_ptr(), 6);
            v.set_len(n);
        }
        Ok(v)
    }
    fn public(&self) -> MPub {
        MPub(self.id)
    }
    fn enr_to_public(content: &BTreeMap<Vec<u8>, Bytes>) -> Result<MPub, DecoderError> {
        let v = content.get(KNAME).ok_or(DecoderError::Custom("Unknown signature"))?;
        let b: &[u8] = v.as_ref();
        if b.len() == 2 && b[0] == 0x81 && b[1] >= 0x80 {
            Ok(MPub(b[1]))
        } else {
            Err(DecoderError::Custom("bad key"))
        }
    }
}

impl EnrPublicKey for MPub {
    type Raw = [u8; 1];
    type RawUncompressed = [u8; 1];
    fn verify_v4(&self, msg: &[u8], sig: &[u8]) -> bool {
        if unsafe { SIGMODE } == ORACLE {
            unsafe {
                V_CALLS += 1;
                V_PUB = self.0;
                V_SIG_LEN = sig.len();
                if sig.len() == 4 {
                    V_SIG = [sig[0], sig[1], sig[2], sig[3]];
                }
                let n = msg.len();
                V_MSG_LEN = n;
                if n >= 2 {
                    V_MSG_0 = msg[0];
                    V_MSG_1 = msg[1];
                    V_MSG_LAST = msg[n - 1];
                }
                return V_RET;
            }
        }
        let n = sig.len();
        if n < 3 || n > 6 {
            return false;
        }
        let m = mac4(self.0, msg);
        let mut ok = m[0] == sig[0] && m[1] == sig[1] && m[2] == sig[2];
        if n > 3 {
            ok = ok && m[3] == sig[3];
        }
        if n > 4 {
            ok = ok && sig[4] == 0x55;
        }
        if n > 5 {
            ok = ok && sig[5] == 0x55;
        }
        ok
    }
    fn encode(&self) -> [u8; 1] {
        [self.0]
    }
    fn encode_uncompressed(&self) -> [u8; 1] {
        [self.0]
    }
    fn enr_key(&self) -> Vec<u8> {
        KNAME.to_vec()
    }
}

/// Stub for `enr::digest` (Keccak-256 is trusted, DESIGN.md 2.4): total, deterministic, injective
/// on the one-byte inputs `MPub::encode_uncompressed` produces (first byte and length are kept).
pub fn digest_stub(b: &[u8]) -> [u8; 32] {
    let mut out = [0u8; 32];
    if !b.is_empty() {
        out[0] = b[0];
    }
    out[1] = b.len() as u8;
    out[2] = 0xd1;
    out
}

/// what the harness expects `enr::digest` to return: the stub under Kani, Keccak-256 natively
pub fn hdigest(b: &[u8]) -> [u8; 32] {
    #[cfg(kani)]
    {
        digest_stub(b)
    }
    #[cfg(not(kani))]
    {
        use sha3::{Digest, Keccak256};
        let mut out = [0u8; 32];
        out.copy_from_slice(&Keccak256::digest(b));
        out
    }
}

/// Stub for `String::from_utf8_lossy`: exact for ASCII input of at most 4 bytes; every other input
/// maps to U+FFFD, which differs from every ASCII string (over-approximation stated in DESIGN 2.4).
pub fn lossy_stub(v: &[u8]) -> std::borrow::Cow<'_, str> {
    let n = v.len();
    let ascii = (n < 1 || v[0] < 0x80) && (n < 2 || v[1] < 0x80) && (n < 3 || v[2] < 0x80) && (n < 4 || v[3] < 0x80);
    if n <= 4 && ascii {
        std::borrow::Cow::Borrowed(unsafe { core::str::from_utf8_unchecked(v) })
    } else {
        std::borrow::Cow::Borrowed("\u{FFFD}")
    }
}

/// Stub for `Enr::id` where `id()` is incidental: same result for the only id the library hands
/// out ("v4"), `Some("?")` for every other string item, `None` when absent or a list.
pub fn id_stub<K: EnrKey>(e: &enr::Enr<K>) -> Option<String> {
    match e.get_raw_rlp("id") {
        None => None,
        Some(raw) => {
            if raw.len() == 3 && raw[0] == 0x82 && raw[1] == b'v' && raw[2] == b'4' {
                Some(String::from("v4"))
            } else if !raw.is_empty() && raw[0] < 0xc0 {
                Some(String::from("?"))
            } else {
                None
            }
        }
    }
}

/// a symbolic key: any id, may fail, any signature length
pub fn any_key() -> MKey {
    let id = crate::sym::u8();
    crate::sym::assume(id >= 0x80);
    let sig_len = crate::sym::u8();
    crate::sym::assume(sig_len >= 3 && sig_len <= 6);
    MKey { id, fail: crate::sym::bool(), sig_len }
}

/// fixed-capacity byte vector with symbolic length (never a symbolic-size allocation)
pub fn mk_vec(raw: &[u8]) -> Vec<u8> {
    let n = raw.len();
    assert!(n <= 40, "harness bound: mk_vec length");
    let mut v: Vec<u8> = Vec::with_capacity(40);
    let dst = v.as_mut_ptr();
    rep40!(|i: usize| if i < n {
        unsafe { *dst.add(i) = raw[i] };
    });
    unsafe { v.set_len(n) };
    v
}
pub fn mk_bytes(raw: &[u8]) -> Bytes {
    Bytes::from(mk_vec(raw))
}

/// Builds a content map in key order. Under Kani each entry goes to the next slot without a
/// search (`verif_push`), so the layout of the pre-state is fixed and no pointer into the map
/// depends on symbolic key bytes; the harness-bound assertion makes sure the keys really are
/// appended in strictly increasing order, i.e. the result is the map `insert` would have produced.
/// Natively (std BTreeMap) it is a plain insert.
pub struct SortedMap {
    pub m: BTreeMap<Vec<u8>, Bytes>,
    last: [u8; 12],
    last_len: usize,
}
impl SortedMap {
    pub fn new() -> Self {
        SortedMap { m: BTreeMap::new(), last: [0; 12], last_len: 0 }
    }
    pub fn push(&mut self, key: &[u8], value: Bytes) {
        assert!(key.len() <= 12 && !key.is_empty(), "harness bound: key length");
        if self.last_len > 0 {
            assert!(&self.last[..self.last_len] < key, "harness bound: keys appended in increasing order");
        }
        self.last[..key.len()].copy_from_slice(key);
        self.last_len = key.len();
        #[cfg(kani)]
        self.m.verif_push(key.to_vec(), value);
        #[cfg(not(kani))]
        self.m.insert(key.to_vec(), value);
    }
    pub fn done(self) -> BTreeMap<Vec<u8>, Bytes> {
        self.m
    }
}

/// capacity of every byte vector created through the stubbed std allocation entry points
pub const CAPV: usize = 40;

/// Stub for `<[u8]>::to_vec` (DESIGN.md 2.4): same result, but the allocation has the fixed
/// capacity `CAPV` instead of a symbolic one (CBMC models symbolic-size allocations with its array
/// theory, which dominated the formula); longer inputs are a reported bound failure.
pub fn to_vec_stub<T: Clone>(s: &[T]) -> Vec<T> {
    let n = s.len();
    assert!(n <= CAPV, "harness bound: to_vec longer than CAPV");
    let mut v: Vec<T> = Vec::with_capacity(CAPV);
    // element-wise copy at constant indices: unlike memcpy this keeps constant contents (key
    // names) visible to the symbolic executor's constant propagation
    let src = s.as_ptr();
    let dst = v.as_mut_ptr();
    rep40!(|i: usize| if i < n {
        unsafe { core::ptr::write(dst.add(i), core::ptr::read(src.add(i))) };
    });
    unsafe { v.set_len(n) };
    v
}
