//! Symbolic inputs. Under Kani every function is `kani::any()`; in the native replay build the
//! same calls pop concrete values (taken from Kani's counterexample) from a queue, so that one
//! harness source serves both the solver and the native confirmation run.
#[cfg(not(kani))]
pub mod replay {
    use std::cell::RefCell;
    thread_local! {
        pub static QUEUE: RefCell<std::collections::VecDeque<Vec<u8>>> = RefCell::new(Default::default());
        pub static COVERS: RefCell<Vec<&'static str>> = RefCell::new(Vec::new());
    }
    pub fn load(vals: Vec<Vec<u8>>) {
        QUEUE.with(|q| *q.borrow_mut() = vals.into());
    }
    pub fn pop(n: usize) -> Vec<u8> {
        let v = QUEUE.with(|q| q.borrow_mut().pop_front());
        match v {
            Some(v) if v.len() == n => v,
            Some(v) => {
                eprintln!("REPLAY-MISMATCH: wanted {} bytes, counterexample has {}", n, v.len());
                std::process::exit(4);
            }
            None => {
                eprintln!("REPLAY-MISMATCH: counterexample exhausted");
                std::process::exit(4);
            }
        }
    }
    pub fn assumption_failed(what: &str) -> ! {
        eprintln!("REPLAY-ASSUME-FAILED: {}", what);
        std::process::exit(5);
    }
}

#[cfg(kani)]
#[inline(always)]
pub fn u8() -> u8 {
    kani::any()
}
#[cfg(not(kani))]
pub fn u8() -> u8 {
    replay::pop(1)[0]
}
#[cfg(kani)]
#[inline(always)]
pub fn u16() -> u16 {
    kani::any()
}
#[cfg(not(kani))]
pub fn u16() -> u16 {
    let v = replay::pop(2);
    u16::from_le_bytes([v[0], v[1]])
}
#[cfg(kani)]
#[inline(always)]
pub fn u64() -> u64 {
    kani::any()
}
#[cfg(not(kani))]
pub fn u64() -> u64 {
    let v = replay::pop(8);
    let mut a = [0u8; 8];
    a.copy_from_slice(&v);
    u64::from_le_bytes(a)
}
#[cfg(kani)]
#[inline(always)]
pub fn usize() -> usize {
    kani::any()
}
#[cfg(not(kani))]
pub fn usize() -> usize {
    u64() as usize
}
/// a symbolic boolean (one symbolic byte, lowest bit)
#[inline(always)]
pub fn bool() -> bool {
    u8() & 1 == 1
}
/// `N` symbolic bytes (N separate symbolic values: the replay format does not depend on how the
/// engine serialises arrays)
#[inline(always)]
pub fn bytes<const N: usize>() -> [u8; N] {
    #[cfg(kani)]
    {
        kani::any()
    }
    #[cfg(not(kani))]
    {
        // Kani's concrete playback lists one value per array element
        let mut a = [0u8; N];
        for x in a.iter_mut() {
            *x = replay::pop(1)[0];
        }
        a
    }
}

#[inline(always)]
pub fn assume(c: bool) {
    #[cfg(kani)]
    kani::assume(c);
    #[cfg(not(kani))]
    if !c {
        replay::assumption_failed("assume");
    }
}

#[macro_export]
macro_rules! vcover {
    ($c:expr, $m:literal) => {{
        #[cfg(kani)]
        kani::cover!($c, $m);
        #[cfg(not(kani))]
        if $c {
            println!("COVER {}", $m);
        }
    }};
}
