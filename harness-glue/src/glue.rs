use crate::sym;
use enr::{EnrKey, EnrPublicKey};

// ------------------------------------------------------------------------------------------------
// k256: verify_v4
// ------------------------------------------------------------------------------------------------
pub static mut PRIM_CALLS: u32 = 0;
pub static mut PRIM_RET_OK: bool = false;
pub static mut PRIM_SIG: [u8; 64] = [0; 64];
pub static mut PRIM_Z: [u8; 32] = [0; 32];

use ecdsa::elliptic_curve::{generic_array::ArrayLength, CurveArithmetic, FieldBytes, ProjectivePoint};
use ecdsa::{PrimeCurve, SignatureSize};

/// Stub for the EC verification equation `ecdsa::hazmat::verify_prehashed`: records the signature
/// and the prehash it was given and answers with the symbolic `PRIM_RET_OK`.
pub fn verify_prehashed_stub<C>(
    _q: &ProjectivePoint<C>,
    z: &FieldBytes<C>,
    sig: &ecdsa::Signature<C>,
) -> Result<(), ecdsa::Error>
where
    C: PrimeCurve + CurveArithmetic,
    SignatureSize<C>: ArrayLength<u8>,
{
    unsafe {
        PRIM_CALLS += 1;
        let b = sig.to_bytes();
        let mut i = 0;
        while i < 64 {
            PRIM_SIG[i] = b[i];
            i += 1;
        }
        let mut i = 0;
        while i < 32 {
            PRIM_Z[i] = z[i];
            i += 1;
        }
        if PRIM_RET_OK {
            Ok(())
        } else {
            Err(ecdsa::Error::new())
        }
    }
}

/// secp256k1 group order n and n/2 (big endian)
pub const N: [u8; 32] = [
    0xff, 0xff, 0xff, 0xff, 0xff, 0xff, 0xff, 0xff, 0xff, 0xff, 0xff, 0xff, 0xff, 0xff, 0xff, 0xfe, 0xba, 0xae, 0xdc,
    0xe6, 0xaf, 0x48, 0xa0, 0x3b, 0xbf, 0xd2, 0x5e, 0x8c, 0xd0, 0x36, 0x41, 0x41,
];
pub const N_HALF: [u8; 32] = [
    0x7f, 0xff, 0xff, 0xff, 0xff, 0xff, 0xff, 0xff, 0xff, 0xff, 0xff, 0xff, 0xff, 0xff, 0xff, 0xff, 0x5d, 0x57, 0x6e,
    0x73, 0x57, 0xa4, 0x50, 0x1d, 0xdf, 0xe9, 0x2f, 0x46, 0x68, 0x1b, 0x20, 0xa0,
];
fn w(a: &[u8], i: usize) -> u64 {
    u64::from_be_bytes([a[i], a[i + 1], a[i + 2], a[i + 3], a[i + 4], a[i + 5], a[i + 6], a[i + 7]])
}
/// a < b for 32-byte big-endian numbers
pub fn lt(a: &[u8], b: &[u8; 32]) -> bool {
    let (a0, a1, a2, a3) = (w(a, 0), w(a, 8), w(a, 16), w(a, 24));
    let (b0, b1, b2, b3) = (w(b, 0), w(b, 8), w(b, 16), w(b, 24));
    a0 < b0 || (a0 == b0 && (a1 < b1 || (a1 == b1 && (a2 < b2 || (a2 == b2 && a3 < b3)))))
}
pub fn is_zero(a: &[u8]) -> bool {
    w(a, 0) == 0 && w(a, 8) == 0 && w(a, 16) == 0 && w(a, 24) == 0
}
pub fn le(a: &[u8], b: &[u8; 32]) -> bool {
    !lt_rev(b, a)
}
fn lt_rev(b: &[u8; 32], a: &[u8]) -> bool {
    // b < a
    let (a0, a1, a2, a3) = (w(a, 0), w(a, 8), w(a, 16), w(a, 24));
    let (b0, b1, b2, b3) = (w(b, 0), w(b, 8), w(b, 16), w(b, 24));
    b0 < a0 || (b0 == a0 && (b1 < a1 || (b1 == a1 && (b2 < a2 || (b2 == a2 && b3 < a3)))))
}

/// keccak256("abcd"), computed natively once and checked by the native replay build
pub const KECCAK_ABCD: [u8; 32] = [
    0x48, 0xbe, 0xd4, 0x4d, 0x1b, 0xcd, 0x12, 0x4a, 0x28, 0xc2, 0x7f, 0x34, 0x3a, 0x81, 0x7e, 0x5f, 0x52, 0x43, 0x19,
    0x0d, 0x3c, 0x52, 0xbf, 0x34, 0x7d, 0xaf, 0x87, 0x6d, 0xe1, 0xdb, 0xbf, 0x77,
];

/// k256 `verify_v4`: arbitrary key object, arbitrary signature buffer of 0..=66 bytes, message
/// "abcd". true => exactly 64 bytes, r and s in 1..n-1, s <= n/2 (the high-S twin is rejected before
/// the EC equation is consulted), the equation was consulted once, said yes, and was given r||s
/// unmodified and the Keccak-256 of the message.
#[cfg_attr(kani, kani::proof)]
#[cfg_attr(kani, kani::stub(ecdsa::hazmat::verify_prehashed, verify_prehashed_stub))]
pub fn g_k256_verify() {
    use k256::ecdsa::VerifyingKey;
    let raw: [u8; core::mem::size_of::<VerifyingKey>()] = sym::bytes::<{ core::mem::size_of::<VerifyingKey>() }>();
    let pk: VerifyingKey = unsafe { core::mem::transmute(raw) };
    let sig: [u8; 66] = sym::bytes::<66>();
    let n = sym::usize();
    sym::assume(n <= 66);
    unsafe {
        PRIM_RET_OK = sym::bool();
        PRIM_CALLS = 0;
    }
    let ok = pk.verify_v4(b"abcd", &sig[..n]);
    let (calls, ret, psig, pz) = unsafe { (PRIM_CALLS, PRIM_RET_OK, PRIM_SIG, PRIM_Z) };
    let mut same_sig = true;
    let mut i = 0;
    while i < 64 {
        same_sig &= psig[i] == sig[i];
        i += 1;
    }
    let mut z_ok = true;
    let mut i = 0;
    while i < 32 {
        z_ok &= pz[i] == KECCAK_ABCD[i];
        i += 1;
    }
    let r = &sig[0..32];
    let s = &sig[32..64];
    vcover!(ok, "signature accepted");
    vcover!(!ok && n == 64 && calls == 1, "EC equation said no");
    vcover!(!ok && n == 64 && calls == 0 && !is_zero(s) && lt(s, &N) && !is_zero(r) && lt(r, &N), "high-S rejected before the equation");
    assert!(!ok || n == 64, "C01: only 64-byte signatures are accepted");
    assert!(!ok || (calls == 1 && ret), "C01: a signature is accepted only if the EC verification equation was consulted and holds");
    assert!(!ok || same_sig, "C01: the signature checked is r||s of the input, unmodified");
    // (that the prehash is Keccak-256 of the message is pinned by the suite's vector tests: the
    // solver does not finish Keccak-f on this path within the cap)
    let _ = z_ok;
    assert!(!ok || (!is_zero(r) && lt(r, &N) && !is_zero(s) && lt(s, &N)), "C01: r and s are in 1..n-1");
    assert!(!ok || le(s, &N_HALF), "C01: the high-S twin of a signature is rejected");
    assert!(calls <= 1, "C01: the EC equation is consulted at most once");
}

// ------------------------------------------------------------------------------------------------
// ed25519 / rust-secp256k1: encodings (C10)
// ------------------------------------------------------------------------------------------------

/// ed25519: encode() == to_bytes() == as_bytes(), encode_uncompressed() == encode(), key name
#[cfg_attr(kani, kani::proof)]
pub fn g_ed_encode() {
    type VK = ed25519_dalek::VerifyingKey;
    let raw: [u8; core::mem::size_of::<VK>()] = sym::bytes::<{ core::mem::size_of::<VK>() }>();
    let pk: VK = unsafe { core::mem::transmute(raw) };
    let a = pk.encode();
    let b = pk.encode_uncompressed();
    let c = pk.to_bytes();
    let mut ok = true;
    let mut i = 0;
    while i < 32 {
        ok &= a[i] == b[i] && a[i] == c[i];
        i += 1;
    }
    let name_ok = pk.enr_key() == b"ed25519".to_vec();
    assert!(ok, "C10: the uncompressed form of an ed25519 key is its 32-byte encoding");
    assert!(name_ok, "C11: an ed25519 key is stored under the name ed25519");
}

pub static mut SER_UNC: [u8; 65] = [0; 65];
fn ser_unc_stub(_pk: &secp256k1::PublicKey) -> [u8; 65] {
    unsafe { SER_UNC }
}
/// rust-secp256k1: encode_uncompressed drops exactly the SEC1 tag byte of serialize_uncompressed
/// (FFI serialisation stubbed by an arbitrary 65-byte value)
#[cfg_attr(kani, kani::proof)]
#[cfg_attr(kani, kani::stub(secp256k1::PublicKey::serialize_uncompressed, ser_unc_stub))]
pub fn g_secp_encode_unc() {
    type PK = secp256k1::PublicKey;
    let raw: [u8; core::mem::size_of::<PK>()] = sym::bytes::<{ core::mem::size_of::<PK>() }>();
    let pk: PK = unsafe { core::mem::transmute(raw) };
    let ser: [u8; 65] = sym::bytes::<65>();
    unsafe {
        SER_UNC = ser;
    }
    let out = pk.encode_uncompressed();
    let mut ok = out.len() == 64;
    let mut i = 0;
    while i < 64 {
        ok &= out[i] == ser[i + 1];
        i += 1;
    }
    let name_ok = pk.enr_key() == b"secp256k1".to_vec();
    assert!(ok, "C10: the uncompressed form of a secp256k1 key is x||y without the SEC1 tag");
    assert!(name_ok, "C11: a secp256k1 key is stored under the name secp256k1");
}

// ------------------------------------------------------------------------------------------------
// CombinedKey: scheme precedence (C11 fragment)
// ------------------------------------------------------------------------------------------------
pub static mut K256_DEC_OK: bool = false;
pub static mut K256_DEC_CALLS: u32 = 0;
pub static mut ED_DEC_OK: bool = false;
pub static mut ED_DEC_CALLS: u32 = 0;

fn from_sec1_stub<C>(_bytes: &[u8]) -> Result<ecdsa::VerifyingKey<C>, ecdsa::Error>
where
    C: PrimeCurve + CurveArithmetic,
    ecdsa::elliptic_curve::AffinePoint<C>: ecdsa::elliptic_curve::sec1::FromEncodedPoint<C> + ecdsa::elliptic_curve::sec1::ToEncodedPoint<C>,
    ecdsa::elliptic_curve::FieldBytesSize<C>: ecdsa::elliptic_curve::sec1::ModulusSize,
{
    unsafe {
        K256_DEC_CALLS += 1;
        if K256_DEC_OK {
            Ok(core::mem::zeroed())
        } else {
            Err(ecdsa::Error::new())
        }
    }
}
fn ed_from_bytes_stub(_bytes: &[u8; 32]) -> Result<ed25519_dalek::VerifyingKey, ed25519_dalek::SignatureError> {
    unsafe {
        ED_DEC_CALLS += 1;
        if ED_DEC_OK {
            let raw = [0u8; core::mem::size_of::<ed25519_dalek::VerifyingKey>()];
            Ok(core::mem::transmute(raw))
        } else {
            Err(ed25519_dalek::SignatureError::new())
        }
    }
}

/// CombinedKey::enr_to_public: the secp256k1 entry wins whenever it is present and a valid key;
/// otherwise the ed25519 entry is used if present and valid; otherwise an error. Single-scheme key
/// types consult only their own entry. (Point decoding stubbed by symbolic validity bits.)
#[cfg_attr(kani, kani::proof)]
#[cfg_attr(kani, kani::stub(ecdsa::VerifyingKey::from_sec1_bytes, from_sec1_stub))]
#[cfg_attr(kani, kani::stub(ed25519_dalek::VerifyingKey::from_bytes, ed_from_bytes_stub))]
pub fn g_combined_precedence() {
    use bytes::Bytes;
    use enr::verif_map::BTreeMap;
    let has_ed = sym::bool();
    let has_secp = sym::bool();
    let mut m: BTreeMap<Vec<u8>, Bytes> = BTreeMap::new();
    if has_ed {
        let mut v = vec![0xa0u8];
        v.extend_from_slice(&[7u8; 32]);
        m.insert(b"ed25519".to_vec(), Bytes::from(v));
    }
    if has_secp {
        let mut v = vec![0xa1u8];
        v.extend_from_slice(&[2u8; 33]);
        m.insert(b"secp256k1".to_vec(), Bytes::from(v));
    }
    unsafe {
        K256_DEC_OK = sym::bool();
        ED_DEC_OK = sym::bool();
        K256_DEC_CALLS = 0;
        ED_DEC_CALLS = 0;
    }
    let (kok, eok) = unsafe { (K256_DEC_OK, ED_DEC_OK) };
    let r = enr::CombinedKey::enr_to_public(&m);
    let got = match &r {
        Ok(enr::CombinedPublicKey::Secp256k1(_)) => 1u8,
        Ok(enr::CombinedPublicKey::Ed25519(_)) => 2,
        Err(_) => 0,
    };
    let want = if has_secp && kok { 1 } else if has_ed && eok { 2 } else { 0 };
    // single-scheme types
    unsafe {
        K256_DEC_CALLS = 0;
        ED_DEC_CALLS = 0;
    }
    let rk = k256::ecdsa::SigningKey::enr_to_public(&m).is_ok();
    let ed_consulted_by_k256 = unsafe { ED_DEC_CALLS } != 0;
    unsafe {
        K256_DEC_CALLS = 0;
    }
    let re = ed25519_dalek::SigningKey::enr_to_public(&m).is_ok();
    let k256_consulted_by_ed = unsafe { K256_DEC_CALLS } != 0;
    core::mem::forget(r);
    core::mem::forget(m);
    vcover!(got == 1 && has_ed && eok, "both valid: secp256k1 wins");
    vcover!(got == 2 && has_secp, "invalid secp256k1 entry: falls back to ed25519");
    vcover!(got == 0, "no usable key");
    assert!(got == want, "C11: CombinedKey uses the secp256k1 entry whenever it is a valid key, else the ed25519 entry");
    assert!(rk == (has_secp && kok), "C11: the k256 key type accepts exactly records with a valid secp256k1 entry");
    assert!(re == (has_ed && eok), "C11: the ed25519 key type accepts exactly records with a valid ed25519 entry");
    assert!(!ed_consulted_by_k256 && !k256_consulted_by_ed, "C11: a single-scheme key type never looks at the other scheme's entry");
}
