//! Native replay: `replay <harness> <file>` where <file> holds one line per symbolic value, each a
//! comma separated list of byte values (as printed by Kani's concrete playback).
//! Exit status: 0 harness ran to the end (no assertion failed), 101 panic (assertion failed),
//! 4 value stream does not match the harness, 5 an assumption does not hold for these values.
#[cfg(kani)]
fn main() {}

#[cfg(not(kani))]
fn main() {
    let a: Vec<String> = std::env::args().collect();
    if a.len() != 3 {
        eprintln!("usage: replay <harness> <values-file>");
        std::process::exit(2);
    }
    let txt = std::fs::read_to_string(&a[2]).expect("values file");
    let mut vals = Vec::new();
    for line in txt.lines() {
        let line = line.trim();
        if line.is_empty() || line.starts_with('#') {
            continue;
        }
        let v: Vec<u8> = if line == "-" {
            Vec::new()
        } else {
            line.split(',').map(|t| t.trim().parse::<u8>().expect("byte")).collect()
        };
        vals.push(v);
    }
    vg::sym::replay::load(vals);
    match vg::registry::HARNESSES.iter().find(|(n, _)| *n == a[1]) {
        Some((_, f)) => {
            f();
            println!("REPLAY-COMPLETED {}", a[1]);
        }
        None => {
            eprintln!("unknown harness {}", a[1]);
            std::process::exit(2);
        }
    }
}
