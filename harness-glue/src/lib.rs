//! Family G: glue around the key back-ends (`src/keys/*.rs`) with the cryptographic primitive
//! stubbed at the narrowest seam (DESIGN.md 2.4, 3/G). Everything around the seam is the real code
//! of enr, k256, ecdsa, ed25519-dalek and rust-secp256k1.
#![allow(clippy::all)]
#[macro_use]
pub mod sym;
pub mod glue;

#[cfg(not(kani))]
pub mod registry;
