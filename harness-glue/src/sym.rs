//! Symbolic inputs. Under Kani every function is `kani::any()`; in the native replay build the
//! same calls pop concrete values (taken from Kani's counterexample) from a queue, so that one
//! harness source serves both the solver and the native confirmation run.
#[cfg(not(kani))]
pub mod replay {
    use std::cell::RefCell;
    thread_local! {
        pub static QUEUE: RefCell<std::collections::VecDeque<Vec<u8>>> = RefCell::new(Default::default());
        pub static COVERS: RefCell<Vec<&'static str>> = RefCell::new(Vec::new());
    }
    pub fn load(vals: Vec<Vec<u8>>) {
        QUEUE.with(|q| *q.borrow_mut() = vals.into());
    }
    pub fn pop(n: usize) -> Vec<u8> {
        let v = QUEUE.with(|q| q.borrow_mut().pop_front());
        match v {
            Some(v) if v.len() == n => v,
            Some(v) => {
                eprintln!("REPLAY-MISMATCH: wanted {} bytes, counterexample has {}", n, v.len());
                std::process::exit(4);
            }
            None => {
                eprintln!("REPLAY-MISMATCH: counterexample exhausted");
                std::process::exit(4);
            }
        }
    }
    pub fn assumption_failed(what: &str) -> ! {
        eprintln!("REPLAY-ASSUME-FAILED: {}", what);
        std::process::exit(5);
    }
}


/// Under Kani all symbolic bytes come from ONE symbolic array drawn at first use: the counterexample
/// trace then always lists every input (as elements of that array) even when CBMC's formula slicing
/// removed the ones a failing property does not depend on, so the trace-generating pass can keep
/// slicing on and stays within the memory of the deciding pass.
#[cfg(kani)]
pub const POOL_N: usize = 200;
#[cfg(kani)]
pub static mut POOL: [u8; POOL_N] = [0; POOL_N];
#[cfg(kani)]
pub static mut POOL_POS: usize = 0;
#[cfg(kani)]
pub static mut POOL_INIT: bool = false;
#[cfg(kani)]
#[inline(always)]
fn pool_byte() -> u8 {
    unsafe {
        if !POOL_INIT {
            POOL = kani::any();
            POOL_INIT = true;
        }
        assert!(POOL_POS < POOL_N, "harness bound: symbolic input pool exhausted");
        let b = POOL[POOL_POS];
        POOL_POS += 1;
        b
    }
}
#[cfg(kani)]
#[inline(always)]
pub fn u8() -> u8 {
    pool_byte()
}
#[cfg(not(kani))]
pub fn u8() -> u8 {
    replay::pop(1)[0]
}
#[cfg(kani)]
#[inline(always)]
pub fn u16() -> u16 {
    u16::from_le_bytes([pool_byte(), pool_byte()])
}
#[cfg(not(kani))]
pub fn u16() -> u16 {
    u16::from_le_bytes([replay::pop(1)[0], replay::pop(1)[0]])
}
#[cfg(kani)]
#[inline(always)]
pub fn u64() -> u64 {
    u64::from_le_bytes([pool_byte(), pool_byte(), pool_byte(), pool_byte(), pool_byte(), pool_byte(), pool_byte(), pool_byte()])
}
#[cfg(not(kani))]
pub fn u64() -> u64 {
    let mut a = [0u8; 8];
    for x in a.iter_mut() {
        *x = replay::pop(1)[0];
    }
    u64::from_le_bytes(a)
}
#[cfg(kani)]
#[inline(always)]
pub fn usize() -> usize {
    u64() as usize
}
#[cfg(not(kani))]
pub fn usize() -> usize {
    u64() as usize
}
/// a symbolic boolean (one symbolic byte, lowest bit)
#[inline(always)]
pub fn bool() -> bool {
    u8() & 1 == 1
}
/// `N` symbolic bytes (N separate symbolic values: the replay format does not depend on how the
/// engine serialises arrays)
#[inline(always)]
pub fn bytes<const N: usize>() -> [u8; N] {
    #[cfg(kani)]
    {
        unsafe {
            if !POOL_INIT {
                POOL = kani::any();
                POOL_INIT = true;
            }
            assert!(POOL_POS + N <= POOL_N, "harness bound: symbolic input pool exhausted");
            let mut a = [0u8; N];
            a.copy_from_slice(&POOL[POOL_POS..POOL_POS + N]);
            POOL_POS += N;
            a
        }
    }
    #[cfg(not(kani))]
    {
        // Kani's concrete playback lists one value per array element
        let mut a = [0u8; N];
        for x in a.iter_mut() {
            *x = replay::pop(1)[0];
        }
        a
    }
}

#[inline(always)]
pub fn assume(c: bool) {
    #[cfg(kani)]
    kani::assume(c);
    #[cfg(not(kani))]
    if !c {
        replay::assumption_failed("assume");
    }
}

#[macro_export]
macro_rules! vcover {
    ($c:expr, $m:literal) => {{
        #[cfg(kani)]
        kani::cover!($c, $m);
        #[cfg(not(kani))]
        if $c {
            println!("COVER {}", $m);
        }
    }};
}

/// calls `$f(i)` for i = 0..N as straight-line code (no loop for the model checker to unwind)
#[macro_export]
macro_rules! rep {
    ($f:expr; $($i:expr),*) => {{ let mut f = $f; $( f($i as usize); )* }};
}
#[macro_export]
macro_rules! rep6 { ($f:expr) => { $crate::rep!($f; 0,1,2,3,4,5) }; }
#[macro_export]
macro_rules! rep8 { ($f:expr) => { $crate::rep!($f; 0,1,2,3,4,5,6,7) }; }
#[macro_export]
macro_rules! rep20 { ($f:expr) => { $crate::rep!($f; 0,1,2,3,4,5,6,7,8,9,10,11,12,13,14,15,16,17,18,19) }; }
#[macro_export]
macro_rules! rep48 { ($f:expr) => { $crate::rep!($f; 0,1,2,3,4,5,6,7,8,9,10,11,12,13,14,15,16,17,18,19,20,21,22,23,
    24,25,26,27,28,29,30,31,32,33,34,35,36,37,38,39,40,41,42,43,44,45,46,47) }; }

/// 32-byte equality without a byte loop
pub fn eq32(a: &[u8; 32], b: &[u8; 32]) -> bool {
    let w = |x: &[u8; 32], i: usize| u64::from_le_bytes([x[i], x[i + 1], x[i + 2], x[i + 3], x[i + 4], x[i + 5], x[i + 6], x[i + 7]]);
    w(a, 0) == w(b, 0) && w(a, 8) == w(b, 8) && w(a, 16) == w(b, 16) && w(a, 24) == w(b, 24)
}
/// equality of two byte strings of at most 8 bytes without a loop
pub fn eq_short(a: &[u8], b: &[u8]) -> bool {
    if a.len() != b.len() || a.len() > 8 {
        return false;
    }
    let mut ok = true;
    rep8!(|i: usize| if i < a.len() { ok = ok && a[i] == b[i]; });
    ok
}
#[macro_export]
macro_rules! rep40 { ($f:expr) => { $crate::rep!($f; 0,1,2,3,4,5,6,7,8,9,10,11,12,13,14,15,16,17,18,19,20,21,22,23,
    24,25,26,27,28,29,30,31,32,33,34,35,36,37,38,39) }; }
